"""H-prog: generated programs with real C++ classes, compiled against /repo's working tree
(DESIGN.md 3.3). Each program prints canonical lines; the model predicts them."""
import hashlib
import os
import subprocess
import sys

HERE = os.path.dirname(os.path.abspath(__file__))
VERIF = os.path.dirname(HERE)
REPO = os.environ.get("VERIF_REPO", "/repo")
CACHE = os.path.join(VERIF, ".cache", "prog")


def build_and_run(programs, flags=None, timeout=900, jobs=None, compiler="g++", env=None, runs=1):
    """programs: list of (name, source). Returns {name: (rc, stdout, stderr or compile error)}"""
    os.makedirs(CACHE, exist_ok=True)
    flags = flags or ["-std=c++17", "-O0", "-g0"]
    jobs = jobs or (os.cpu_count() or 8)
    out = {}
    pending = list(programs)
    running = []
    inc = os.path.join(REPO, "include")

    def start(name, src):
        h = hashlib.sha256((src + " ".join(flags) + compiler).encode()).hexdigest()[:12]
        base = os.path.join(CACHE, "%s-%s" % (name, h))
        with open(base + ".cpp", "w") as f:
            f.write(src)
        p = subprocess.Popen([compiler] + flags + ["-I" + inc, base + ".cpp", "-o", base + ".exe"],
                             stdout=subprocess.PIPE, stderr=subprocess.PIPE, text=True)
        return (name, base, p)
    while pending or running:
        while pending and len(running) < jobs:
            running.append(start(*pending.pop(0)))
        name, base, p = running.pop(0)
        so, se = p.communicate()
        if p.returncode != 0:
            out[name] = (None, "", "compile error:\n" + se[-3000:])
        else:
            try:
                r = subprocess.run([base + ".exe"], stdout=subprocess.PIPE, stderr=subprocess.PIPE, text=True, timeout=timeout, env=env)
                out[name] = (r.returncode, r.stdout, r.stderr[-3000:])
            except subprocess.TimeoutExpired:
                out[name] = (-1, "", "timeout")
        for ext in (".cpp", ".exe"):
            try:
                os.remove(base + ext)
            except OSError:
                pass
    return out


# ------------------------------------------------------------------------------------------------
# C20: use_definitions over a product with holes

def prog_use_definitions(nl, nr, holes, form="member"):
    """form: how a definition provides `fn` - "member" (static member function), "pointer" (constexpr
    function pointer), "reference" (constexpr function reference)"""
    ls = ", ".join("L<%d>" % i for i in range(nl))
    rs = ", ".join("R<%d>" % i for i in range(nr))
    # how a combination is marked not_defined: directly; directly, but still providing fn; through an intermediate
    # base; through two bases at once (not_defined is then an ambiguous base); through a private base
    hole_forms = [
        "template<> struct definition<M, L<%(l)d>, R<%(r)d>> : not_defined {};",
        "template<> struct definition<M, L<%(l)d>, R<%(r)d>> : not_defined { static int fn(L<%(l)d>&, R<%(r)d>&) { return -1; } };",
        "template<> struct definition<M, L<%(l)d>, R<%(r)d>> : off_left { static int fn(L<%(l)d>&, R<%(r)d>&) { return -1; } };",
        "template<> struct definition<M, L<%(l)d>, R<%(r)d>> : off_left, off_right { static int fn(L<%(l)d>&, R<%(r)d>&) { return -1; } };",
        "template<> struct definition<M, L<%(l)d>, R<%(r)d>> : private not_defined { static int fn(L<%(l)d>&, R<%(r)d>&) { return -1; } };",
    ]
    hole_specs = "struct off_left : not_defined {};\nstruct off_right : not_defined {};\n" + \
        "\n".join(hole_forms[k % len(hole_forms)] % {"l": h[0], "r": h[1]} for k, h in enumerate(holes))
    fn_decl = {"member": "static int fn(A& a, B& b) { return impl_fn<A, B>(a, b); }",
               "pointer": "static constexpr auto fn = &impl_fn<A, B>;",
               "reference": "static constexpr int (&fn)(A&, B&) = impl_fn<A, B>;"}[form]
    return r'''
#include <yorel/yomm2/core.hpp>
#include <yorel/yomm2/symbols.hpp>
#include <yorel/yomm2/templates.hpp>
#include <algorithm>
#include <cstdio>
#include <map>
#include <typeinfo>
#include <vector>
using namespace yorel::yomm2;
struct Base { virtual ~Base() {} };
template<int I> struct L : Base {};
template<int I> struct R : Base {};
use_classes<Base, %(ls)s, %(rs)s> YOMM2_GENSYM;
struct key;
using M = method<key, int(virtual_<Base&>, virtual_<Base&>)>;
template<class T> struct idx;
template<int I> struct idx<L<I>> { static constexpr int v = I; static constexpr char side = 'L'; };
template<int I> struct idx<R<I>> { static constexpr int v = I; static constexpr char side = 'R'; };
template<typename A, typename B> int impl_fn(A&, B&) { return 1000 * idx<A>::v + idx<B>::v; }
template<typename Method, typename A, typename B>
struct definition { %(fn_decl)s };
%(holes)s
using TL = types<%(ls)s>;
using TR = types<%(rs)s>;
using P = product<types<M>, TL, TR>;
use_definitions<definition, P> YOMM2_GENSYM;
static std::map<type_id, int> left, right;
template<int... I> void fill_l(std::integer_sequence<int, I...>) { ((left[(type_id)&typeid(L<I>)] = I), ...); }
template<int... I> void fill_r(std::integer_sequence<int, I...>) { ((right[(type_id)&typeid(R<I>)] = I), ...); }
template<class Mm, class A, class B> void show(boost::mp11::mp_identity<types<Mm, A, B>>) { std::printf(" %%d:%%d", idx<A>::v, idx<B>::v); }
int main() {
    fill_l(std::make_integer_sequence<int, %(nl)d>{});
    fill_r(std::make_integer_sequence<int, %(nr)d>{});
    std::printf("product");
    boost::mp11::mp_for_each<boost::mp11::mp_transform<boost::mp11::mp_identity, P>>([](auto t) { show(t); });
    std::printf("\n");
    std::vector<std::pair<int, int>> regs;
    for (auto& d : M::fn.specs) {
        regs.push_back({left.at(d.vp_begin[0]), right.at(d.vp_begin[1])});
    }
    std::sort(regs.begin(), regs.end());
    std::printf("registered");
    for (auto& r : regs) std::printf(" %%d:%%d", r.first, r.second);
    std::printf("\n");
    update();
    set_error_handler([](const error_type& e) {
        if (auto r = std::get_if<resolution_error>(&e)) throw *r;
    });
    // dispatch through each combination
    std::vector<Base*> ls = { %(lnew)s };
    std::vector<Base*> rs = { %(rnew)s };
    std::printf("calls");
    for (int i = 0; i < %(nl)d; ++i)
        for (int j = 0; j < %(nr)d; ++j) {
            try { int r = M::fn(*ls[i], *rs[j]); std::printf(" %%d", r); }
            catch (const resolution_error& e) { std::printf(" E"); }
        }
    std::printf("\n");
    return 0;
}
''' % {"ls": ls, "rs": rs, "holes": hole_specs, "nl": nl, "nr": nr, "fn_decl": fn_decl,
       "lnew": ", ".join("new L<%d>" % i for i in range(nl)), "rnew": ", ".join("new R<%d>" % i for i in range(nr))}


# ------------------------------------------------------------------------------------------------
# C11 (and the smart-pointer glue of C09): argument passing through thunks

SHAPES = {
    "single": ("struct Derived : Base { int d = 2; };", "Base, Derived"),
    "second": ("struct Pad { virtual ~Pad() {} long pad[3] = {1, 2, 3}; };\nstruct Derived : Pad, Base { int d = 2; };", "Base, Derived"),
    "virtual": ("struct Derived : virtual Base { int d = 2; };", "Base, Derived"),
    "deep": ("struct Pad { virtual ~Pad() {} long pad[3] = {1, 2, 3}; };\nstruct Mid : Pad, Base { int m = 3; };\nstruct Derived : Mid { int d = 2; };", "Base, Mid, Derived"),
    "vdeep": ("struct Pad { virtual ~Pad() {} long pad[3] = {1, 2, 3}; };\nstruct Mid : virtual Base { int m = 3; };\nstruct Derived : Pad, Mid { int d = 2; };", "Base, Mid, Derived"),
}


def prog_args(shape, policy="default"):
    decl, classes = SHAPES[shape]
    pol = "" if policy == "default" else ", " + policy
    polt = "YOMM2_DEFAULT_POLICY" if policy == "default" else policy
    return r'''
#include <yorel/yomm2/core.hpp>
#include <yorel/yomm2/symbols.hpp>
#include <cstdio>
#include <memory>
using namespace yorel::yomm2;
using Pol = %(polt)s;
struct Tracked {
    static int copies, moves;
    int v = 7;
    Tracked() {}
    Tracked(const Tracked& o) : v(o.v) { ++copies; }
    Tracked(Tracked&& o) : v(o.v) { ++moves; o.v = -1; }
};
int Tracked::copies, Tracked::moves;
struct MoveOnly {
    static int moves;
    int v = 9;
    MoveOnly() {}
    MoveOnly(MoveOnly&& o) : v(o.v) { ++moves; o.v = -1; }
    MoveOnly(const MoveOnly&) = delete;
};
int MoveOnly::moves;
struct Base { virtual ~Base() {} int b = 1; };
%(decl)s
use_classes<%(classes)s%(pol)s> YOMM2_GENSYM;
struct Seen { const void* as_derived; const void* most; int d; bool owner_same; long use; int extra; } seen;
static void see(const Derived& d, int extra = 0) { seen.as_derived = &d; seen.most = dynamic_cast<const void*>(&d); seen.d = d.d; seen.extra = extra; }
template<class K> struct key;
#define METHOD(NAME, ...) using NAME = method<key<struct NAME##_k>, __VA_ARGS__%(pol)s>
// virtual parameter kinds, at position 0 and at position 1 (after an int)
METHOD(m_ref, int(virtual_<Base&>));
METHOD(m_ref1, int(int, virtual_<Base&>));
METHOD(m_cref, int(virtual_<const Base&>));
METHOD(m_rref, int(virtual_<Base&&>));
METHOD(m_ptr, int(virtual_<Base*>, int));
METHOD(m_shared, int(virtual_<std::shared_ptr<Base>>));
METHOD(m_cshared, int(double, virtual_<const std::shared_ptr<Base>&>));
METHOD(m_vptr, int(virtual_ptr<Base, Pol>));
METHOD(m_vptr1, int(int, virtual_ptr<Base, Pol>, int));
METHOD(m_vsptr, int(virtual_shared_ptr<Base, Pol>));
METHOD(m_cvsptr, int(const virtual_shared_ptr<Base, Pol>&));
METHOD(m_vsptrc, int(virtual_shared_ptr<const Base, Pol>));
METHOD(m_two, int(virtual_<Base&>, virtual_<Base*>));
// non-virtual categories
METHOD(n_value, int(virtual_<Base&>, Tracked));
METHOD(n_lref, int(virtual_<Base&>, Tracked&));
METHOD(n_rref, int(Tracked&&, virtual_<Base&>));
METHOD(n_moveonly, int(virtual_<Base&>, MoveOnly));
METHOD(n_ret, Tracked(virtual_<Base&>));
METHOD(n_retref, Tracked&(virtual_<Base&>, Tracked&));
// a definition may return a pointer to a class derived from the one the method returns (here its second base):
// the caller must get the pointer adjusted to the method's return class; the definition has the method's own parameters
struct RBase { virtual ~RBase() {} int r = 7; };
struct RPad { virtual ~RPad() {} long pad[2] = {1, 2}; };
struct RDer : RPad, RBase { int x = 8; };
static RDer g_rder;
METHOD(n_retcov, RBase*(virtual_<Base&>));
static std::shared_ptr<Base> g_owner;
static int d_ref(Derived& d) { see(d); return 1; }
static int d_ref1(int x, Derived& d) { see(d, x); return 1; }
static int d_cref(const Derived& d) { see(d); return 1; }
static int d_rref(Derived&& d) { see(d); return 1; }
static int d_ptr(Derived* d, int x) { see(*d, x); return 1; }
static int d_shared(std::shared_ptr<Derived> d) { see(*d); seen.owner_same = !d.owner_before(g_owner) && !g_owner.owner_before(d); seen.use = d.use_count(); return 1; }
static int d_cshared(double x, const std::shared_ptr<Derived>& d) { see(*d, (int)x); seen.owner_same = !d.owner_before(g_owner) && !g_owner.owner_before(d); seen.use = d.use_count(); return 1; }
static int d_vptr(virtual_ptr<Derived, Pol> d) { see(*d); return 1; }
static int d_vptr1(int x, virtual_ptr<Derived, Pol> d, int y) { see(*d, x * 10 + y); return 1; }
static int d_vsptr(virtual_shared_ptr<Derived, Pol> d) { see(*d); seen.owner_same = !d.get().owner_before(g_owner) && !g_owner.owner_before(d.get()); seen.use = d.get().use_count(); return 1; }
static int d_vsptrc(virtual_shared_ptr<const Derived, Pol> d) { see(*d); return 1; }
static int d_cvsptr(const virtual_shared_ptr<Derived, Pol>& d) { see(*d); seen.owner_same = !d.get().owner_before(g_owner) && !g_owner.owner_before(d.get()); return 1; }
static int d_two(Derived& a, Derived* b) { see(a); seen.extra = (&a == b) ? 1 : 0; return 1; }
static int dn_value(Derived& d, Tracked t) { see(d, t.v); return 1; }
static int dn_lref(Derived& d, Tracked& t) { see(d, t.v); t.v = 8; seen.most = &t; return 1; }
static int dn_rref(Tracked&& t, Derived& d) { see(d, t.v); seen.most = &t; return 1; }
static int dn_moveonly(Derived& d, MoveOnly t) { see(d, t.v); return 1; }
static Tracked dn_ret(Derived& d) { see(d); return Tracked(); }
static Tracked& dn_retref(Derived& d, Tracked& t) { see(d); return t; }
static RDer* dn_retcov(Base&) { return &g_rder; }
#define ADD(M, F) static typename M::template add_function<F> YOMM2_GENSYM
ADD(m_ref, d_ref); ADD(m_ref1, d_ref1); ADD(m_cref, d_cref); ADD(m_rref, d_rref); ADD(m_ptr, d_ptr);
ADD(m_shared, d_shared); ADD(m_cshared, d_cshared); ADD(m_vptr, d_vptr); ADD(m_vptr1, d_vptr1);
ADD(m_vsptr, d_vsptr); ADD(m_cvsptr, d_cvsptr); ADD(m_two, d_two); ADD(m_vsptrc, d_vsptrc);
ADD(n_value, dn_value); ADD(n_lref, dn_lref); ADD(n_rref, dn_rref); ADD(n_moveonly, dn_moveonly); ADD(n_ret, dn_ret); ADD(n_retref, dn_retref); ADD(n_retcov, dn_retcov);
static void report(const char* kind, const Derived& obj, int extra_expected) {
    std::printf("arg kind=%%s same=%%d most=%%d value=%%d extra=%%d\n", kind, seen.as_derived == &obj,
                seen.most == dynamic_cast<const void*>(&obj), seen.d == 2, seen.extra == extra_expected);
}
int main() {
    update<Pol>();
    std::printf("cast dynamic=%%d\n", (int)detail::requires_dynamic_cast<Base&, Derived&>);
    Derived obj;
    Base& b = obj;
    seen = {}; m_ref::fn(b); report("ref", obj, 0);
    seen = {}; m_ref1::fn(5, b); report("ref@1", obj, 5);
    seen = {}; m_cref::fn(b); report("cref", obj, 0);
    seen = {}; m_rref::fn(std::move(b)); report("rref", obj, 0);
    seen = {}; m_ptr::fn(&b, 6); report("ptr", obj, 6);
    seen = {}; m_two::fn(b, &b); report("two", obj, 1);
    {
        auto sd = std::make_shared<Derived>();
        std::shared_ptr<Base> sb = sd;
        g_owner = sb;
        long before = sb.use_count();
        seen = {}; m_shared::fn(sb); report("shared", *sd, 0);
        std::printf("own kind=shared same_owner=%%d use_after=%%d\n", seen.owner_same, sb.use_count() == before);
        seen = {}; m_cshared::fn(2.0, sb); report("cshared@1", *sd, 2);
        std::printf("own kind=cshared same_owner=%%d use_after=%%d\n", seen.owner_same, sb.use_count() == before);
        virtual_shared_ptr<Base, Pol> vsp(sb);
        seen = {}; m_vsptr::fn(vsp); report("vsptr", *sd, 0);
        std::printf("own kind=vsptr same_owner=%%d use_after=%%d\n", seen.owner_same, sb.use_count() == before + 1);
        seen = {}; m_cvsptr::fn(vsp); report("cvsptr", *sd, 0);
        std::printf("own kind=cvsptr same_owner=%%d\n", seen.owner_same);
        // construction routes of virtual_shared_ptr (C09): all must dispatch like the reference
        std::shared_ptr<Base> nonconst = sd;
        const std::shared_ptr<Base> cst = sd;
        seen = {}; m_vsptr::fn(virtual_shared_ptr<Base, Pol>(nonconst)); report("vsptr<-lvalue", *sd, 0);
        seen = {}; m_vsptr::fn(virtual_shared_ptr<Base, Pol>(cst)); report("vsptr<-const", *sd, 0);
        seen = {}; m_vsptr::fn(virtual_shared_ptr<Base, Pol>(std::shared_ptr<Base>(sd))); report("vsptr<-rvalue", *sd, 0);
        virtual_shared_ptr<Derived, Pol> vd(sd);
        seen = {}; m_vsptr::fn(virtual_shared_ptr<Base, Pol>(vd)); report("vsptr<-derived", *sd, 0);
        // pointers to const objects: from a pointer to the base (dynamic type looked up), from a pointer of exactly
        // the object's class (static type used), copied, and converted to the base afterwards
        std::shared_ptr<const Base> cb = sd;
        std::shared_ptr<const Derived> cd = sd;
        seen = {}; m_vsptrc::fn(virtual_shared_ptr<const Base, Pol>(cb)); report("vsptr-const<-base", *sd, 0);
        virtual_shared_ptr<const Derived, Pol> vcd(cd);
        seen = {}; m_vsptrc::fn(virtual_shared_ptr<const Base, Pol>(vcd)); report("vsptr-const<-exact", *sd, 0);
        virtual_shared_ptr<const Derived, Pol> vcd2(vcd);
        seen = {}; m_vsptrc::fn(vcd2); report("vsptr-const<-copy", *sd, 0);
        auto mv = make_virtual_shared<Derived, Pol>();
        seen = {}; m_vsptr::fn(mv); std::printf("arg kind=make_virtual_shared same=%%d get=%%d\n", seen.as_derived == mv.get().get(), &*mv == mv.get().get());
        g_owner.reset();
    }
    {
        virtual_ptr<Base, Pol> vp(b);
        seen = {}; m_vptr::fn(vp); report("vptr", obj, 0);
        seen = {}; m_vptr1::fn(3, vp, 4); report("vptr@1", obj, 34);
        virtual_ptr<Base, Pol> copy(vp);
        seen = {}; m_vptr::fn(copy); report("vptr-copy", obj, 0);
        virtual_ptr<Derived, Pol> fin = virtual_ptr<Derived, Pol>::final(obj);
        seen = {}; m_vptr::fn(fin); report("vptr-final->base", obj, 0);
        virtual_ptr<Derived, Pol> exact(obj);
        seen = {}; m_vptr::fn(exact); report("vptr-exact->base", obj, 0);
        std::printf("get kind=vptr get=%%d deref=%%d arrow=%%d\n", vp.get() == &b, &*vp == &b, vp->b == 1);
    }
    {
        Tracked t;
        Tracked::copies = Tracked::moves = 0; seen = {}; n_value::fn(b, Tracked()); std::printf("nv cat=value-prvalue got=%%d copies=%%d moves_le1=%%d\n", seen.extra == 7, Tracked::copies, Tracked::moves <= 1);
        Tracked::copies = Tracked::moves = 0; seen = {}; n_value::fn(b, std::move(t)); std::printf("nv cat=value-xvalue got=%%d copies=%%d moves_le1=%%d src_moved=%%d\n", seen.extra == 7, Tracked::copies, Tracked::moves <= 1, t.v == -1);
        Tracked t2;
        Tracked::copies = Tracked::moves = 0; seen = {}; n_value::fn(b, t2); std::printf("nv cat=value-lvalue got=%%d copies=%%d src_intact=%%d\n", seen.extra == 7, Tracked::copies, t2.v == 7);
        Tracked::copies = Tracked::moves = 0; seen = {}; n_lref::fn(b, t2); std::printf("nv cat=lref same=%%d copies=%%d moves=%%d written=%%d\n", seen.most == &t2, Tracked::copies, Tracked::moves, t2.v == 8);
        Tracked t3;
        Tracked::copies = Tracked::moves = 0; seen = {}; n_rref::fn(std::move(t3), b); std::printf("nv cat=rref same=%%d copies=%%d moves=%%d intact=%%d\n", seen.most == &t3, Tracked::copies, Tracked::moves, t3.v == 7);
        MoveOnly::moves = 0; seen = {}; n_moveonly::fn(b, MoveOnly()); std::printf("nv cat=moveonly got=%%d moves_le1=%%d\n", seen.extra == 9, MoveOnly::moves <= 1);
        Tracked::copies = Tracked::moves = 0; Tracked r = n_ret::fn(b); std::printf("ret cat=value got=%%d copies=%%d moves=%%d\n", r.v == 7, Tracked::copies, Tracked::moves);
        Tracked t4; Tracked& rr = n_retref::fn(b, t4); std::printf("ret cat=ref same=%%d\n", &rr == &t4);
        RBase* rc = n_retcov::fn(b); std::printf("ret cat=derived-pointer adjusted=%%d value=%%d\n", rc == static_cast<RBase*>(&g_rder), rc == static_cast<RBase*>(&g_rder) && rc->r == 7);
    }
    return 0;
}
''' % {"decl": decl, "classes": classes, "pol": pol, "polt": polt}


def prog_vfork(policy="default"):
    """definitions on an intermediate class that has a virtual base; objects of four most derived classes
    with different layouts go through each definition in turn"""
    pol = "" if policy == "default" else ", " + policy
    polt = "YOMM2_DEFAULT_POLICY" if policy == "default" else policy
    return r"""
#include <yorel/yomm2/core.hpp>
#include <yorel/yomm2/symbols.hpp>
#include <cstdio>
using namespace yorel::yomm2;
using Pol = %(polt)s;
struct Base { virtual ~Base() {} int b = 1; };
struct Pad { virtual ~Pad() {} long pad[3] = {1, 2, 3}; };
struct Pad2 { virtual ~Pad2() {} long pad[5] = {1, 2, 3, 4, 5}; };
struct Derived : virtual Base { int d = 2; };
struct Leaf1 : Pad, Derived { int l = 3; };
struct Leaf2 : Derived, Pad2 { int l = 4; };
struct Leaf3 : Pad2, Pad, Derived { int l = 5; };
use_classes<Base, Derived, Leaf1, Leaf2, Leaf3%(pol)s> YOMM2_GENSYM;
struct Seen { const void* as_derived; int d; int extra; } seen;
static void see(const Derived& d, int extra = 0) { seen.as_derived = &d; seen.d = d.d; seen.extra = extra; }
template<class K> struct key;
#define METHOD(NAME, ...) using NAME = method<key<struct NAME##_k>, __VA_ARGS__%(pol)s>
METHOD(m_ref, int(virtual_<Base&>));
METHOD(m_ref1, int(int, virtual_<Base&>));
METHOD(m_cref, int(virtual_<const Base&>));
METHOD(m_rref, int(virtual_<Base&&>));
METHOD(m_ptr, int(virtual_<Base*>, int));
METHOD(m_vptr, int(virtual_ptr<Base, Pol>));
METHOD(m_vptr1, int(int, virtual_ptr<Base, Pol>, int));
static int d_ref(Derived& d) { see(d); return 1; }
static int d_ref1(int x, Derived& d) { see(d, x); return 1; }
static int d_cref(const Derived& d) { see(d); return 1; }
static int d_rref(Derived&& d) { see(d); return 1; }
static int d_ptr(Derived* d, int x) { see(*d, x); return 1; }
static int d_vptr(virtual_ptr<Derived, Pol> d) { see(*d); return 1; }
static int d_vptr1(int x, virtual_ptr<Derived, Pol> d, int y) { see(*d, x * 10 + y); return 1; }
#define ADD(M, F) static typename M::template add_function<F> YOMM2_GENSYM
ADD(m_ref, d_ref); ADD(m_ref1, d_ref1); ADD(m_cref, d_cref); ADD(m_rref, d_rref); ADD(m_ptr, d_ptr);
ADD(m_vptr, d_vptr); ADD(m_vptr1, d_vptr1);
static Leaf1 l1; static Leaf2 l2; static Derived dd; static Leaf3 l3;
struct Obj { const char* name; Base* base; Derived* derived; };
static Obj objs[] = {{"L1", &l1, &l1}, {"L2", &l2, &l2}, {"D", &dd, &dd}, {"L3", &l3, &l3}, {"L2", &l2, &l2}, {"L1", &l1, &l1}};
static void report(const char* kind, const Obj& o, int extra_expected) {
    std::printf("fork kind=%%s obj=%%s same=%%d value=%%d extra=%%d\n", kind, o.name, seen.as_derived == o.derived, seen.d == 2, seen.extra == extra_expected);
}
int main() {
    update<Pol>();
    for (auto& o : objs) { seen = {}; m_ref::fn(*o.base); report("ref", o, 0); }
    for (auto& o : objs) { seen = {}; m_ref1::fn(5, *o.base); report("ref@1", o, 5); }
    for (auto& o : objs) { seen = {}; m_cref::fn(*o.base); report("cref", o, 0); }
    for (auto& o : objs) { seen = {}; m_rref::fn(std::move(*o.base)); report("rref", o, 0); }
    for (auto& o : objs) { seen = {}; m_ptr::fn(o.base, 6); report("ptr", o, 6); }
    for (auto& o : objs) { seen = {}; m_vptr::fn(virtual_ptr<Base, Pol>(*o.base)); report("vptr", o, 0); }
    for (auto& o : objs) { seen = {}; m_vptr1::fn(3, virtual_ptr<Base, Pol>(*o.base), 4); report("vptr@1", o, 34); }
    return 0;
}
""" % {"pol": pol, "polt": polt}


def prog_aggregate(n):
    """aggregate<Tag<0>, ..., Tag<n-1>>: which elements get constructed, and how many times"""
    return r"""
#include <tuple>
#include <yorel/yomm2/core.hpp>
#include <yorel/yomm2/templates.hpp>
#include <cstdio>
#include <utility>
using namespace yorel::yomm2;
static int hits[%(n)d + 1];
template<std::size_t N> struct Tag { Tag() { ++hits[N]; } };
template<class Seq> struct mk;
template<std::size_t... I> struct mk<std::index_sequence<I...>> { using type = aggregate<Tag<I>...>; };
int main() {
    { typename mk<std::make_index_sequence<%(n)d>>::type a; (void)a; }
    int total = 0;
    for (int i = 0; i < %(n)d; i++) total += hits[i];
    std::printf("aggregate n=%(n)d constructed=%%d missing=[", total);
    bool first = true;
    for (int i = 0; i < %(n)d; i++) if (hits[i] == 0) { std::printf(first ? "%%d" : ", %%d", i); first = false; }
    std::printf("] twice=[");
    first = true;
    for (int i = 0; i < %(n)d; i++) if (hits[i] > 1) { std::printf(first ? "%%d" : ", %%d", i); first = false; }
    std::printf("]\n");
    return 0;
}
""" % {"n": n}


# ------------------------------------------------------------------------------------------------
# C12: a program compiled against the generated static offsets

def static_offsets_sources(perm, checked):
    """domain + main for the two-stage build: stage A (no slots.hpp) writes slots.hpp and prints what it
    dispatches; stage B is the same source compiled with slots.hpp present. `perm` orders the method
    declarations (which decides the slots)."""
    base = "::yorel::yomm2::policy::debug" if checked else "::yorel::yomm2::policy::release"
    methods = [
        ("m1", "int", "(virtual_<R1&>)", "r1"),
        ("m2", "int", "(int, virtual_<R2&>)", "i r2"),
        ("m3", "int", "(virtual_<R1&>, virtual_<R2&>)", "r1 r2"),
        ("m4", "int", "(virtual_<R1&>, int, virtual_<R1&>, virtual_<R2&>)", "r1 i r1 r2"),
        ("m5", "int", "(virtual_<R2&>, virtual_<R2&>, int)", "r2 r2 i"),
        ("m6", "int", "(virtual_<R3&>)", "r3"),
        ("m7", "int", "(virtual_ptr<R1>, virtual_ptr<R2>)", "p1 p2"),
    ]
    decls = "\n".join("declare_method(%s, %s, %s);" % (methods[i][1], methods[i][0], methods[i][2]) for i in perm)
    domain = r'''
#ifndef DOMAIN_HPP
#define DOMAIN_HPP
#include <yorel/yomm2/policy.hpp>
struct P : %(base)s::rebind<P>::replace<::yorel::yomm2::policy::error_handler, ::yorel::yomm2::policy::throw_error> {};
#define YOMM2_DEFAULT_POLICY P
#include <yorel/yomm2/keywords.hpp>
using yorel::yomm2::virtual_ptr;
#if __has_include("slots.hpp")
#include "slots.hpp"
#define HAVE_SLOTS 1
#else
#define HAVE_SLOTS 0
#endif
struct R1 { virtual ~R1() {} };
struct R2 { virtual ~R2() {} };
struct X1 : R1 {};
struct Y1 : R1 {};
struct X2 : R2 {};
struct Z : X1, X2 {};
struct W : Y1, X2 {};
// a third hierarchy, separate at first; J joins it to the others and is registered late (phase 2)
struct R3 { virtual ~R3() {} };
struct X3 : R3 {};
struct J : X3, X1 {};
struct JJ : X3, X2 {};
#define CHECKED_POLICY %(checked)d
%(decls)s
#endif
''' % {"base": base, "decls": decls, "checked": 1 if checked else 0}
    main = r'''
#include "domain.hpp"
#include <yorel/yomm2/generator.hpp>
#include <cstdio>
#include <fstream>
#include <iostream>
using namespace yorel::yomm2;
register_classes(R1, R2, X1, Y1, X2, Z, W);
register_classes(R3, X3);
#include <new>
template<class T> struct Slot {
    alignas(T) static inline unsigned char buf[sizeof(T)];
    static void make() { new (buf) T(); }
};
using Late = Slot<use_classes<J, X3, X1>>;
using Late2 = Slot<use_classes<JJ, X3, X2>>;
define_method(int, m7, (virtual_ptr<R1>, virtual_ptr<R2>)) { return 70; }
define_method(int, m7, (virtual_ptr<X1>, virtual_ptr<X2>)) { return 71; }
define_method(int, m6, (R3&)) { return 60; }
define_method(int, m6, (X3&)) { return 61; }
define_method(int, m1, (R1&)) { return 10; }
define_method(int, m1, (X1&)) { return 11; }
define_method(int, m1, (Z&)) { return 12; }
define_method(int, m2, (int i, R2&)) { return 20 + i; }
define_method(int, m2, (int i, W&)) { return 25 + i; }
define_method(int, m3, (R1&, R2&)) { return 30; }
define_method(int, m3, (X1&, X2&)) { return 31; }
define_method(int, m3, (Z&, Z&)) { return 32; }
define_method(int, m4, (R1&, int i, R1&, R2&)) { return 40 + i; }
define_method(int, m4, (Y1&, int i, X1&, X2&)) { return 45 + i; }
define_method(int, m5, (X2&, X2&, int i)) { return 50 + i; }
define_method(int, m5, (Z&, W&, int i)) { return 55 + i; }
template<class F> static void run(const char* what, F f) {
    try { std::printf("%s -> %d\n", what, f()); }
    catch (const resolution_error& e) { std::printf("%s -> resolution %d\n", what, (int)e.status); }
    catch (const static_slot_error&) { std::printf("%s -> static_slot\n", what); }
    catch (const static_stride_error&) { std::printf("%s -> static_stride\n", what); }
}
int main(int argc, char** argv) {
    auto compiler = update<P>();
    if (argc > 1) {
        std::ofstream f(argv[1]);
        generator g;
        g.add_forward_declarations().write_forward_declarations(f);
        g.write_static_offsets(f);
    }
    std::printf("static %d %d %d %d %d %d %d\n",
        (int)detail::has_static_offsets<method_class(int, m1, (virtual_<R1&>))>::value,
        (int)detail::has_static_offsets<method_class(int, m2, (int, virtual_<R2&>))>::value,
        (int)detail::has_static_offsets<method_class(int, m3, (virtual_<R1&>, virtual_<R2&>))>::value,
        (int)detail::has_static_offsets<method_class(int, m4, (virtual_<R1&>, int, virtual_<R1&>, virtual_<R2&>))>::value,
        (int)detail::has_static_offsets<method_class(int, m5, (virtual_<R2&>, virtual_<R2&>, int))>::value,
        (int)detail::has_static_offsets<method_class(int, m6, (virtual_<R3&>))>::value,
        (int)detail::has_static_offsets<method_class(int, m7, (virtual_ptr<R1>, virtual_ptr<R2>))>::value);
    for (auto& m : P::methods) {
        std::printf("ss %s [", m.name.data());
        std::size_t n = 2 * m.arity() - 1;
        for (std::size_t i = 0; i < n; ++i) std::printf(i ? ",%zu" : "%zu", m.slots_strides_ptr[i]);
        std::printf("]\n");
    }
    R1 r1; R2 r2; X1 x1; Y1 y1; X2 x2; Z z; W w;
    R1* a1[] = {&r1, &x1, &y1, &z, &w};
    R2* a2[] = {&r2, &x2, &z, &w};
    const char* n1[] = {"R1", "X1", "Y1", "Z", "W"};
    const char* n2[] = {"R2", "X2", "Z", "W"};
    char buf[128];
    for (int i = 0; i < 5; i++) { std::snprintf(buf, sizeof buf, "m1(%s)", n1[i]); run(buf, [&] { return m1(*a1[i]); }); }
    for (int j = 0; j < 4; j++) { std::snprintf(buf, sizeof buf, "m2(3,%s)", n2[j]); run(buf, [&] { return m2(3, *a2[j]); }); }
    for (int i = 0; i < 5; i++) for (int j = 0; j < 4; j++) {
        std::snprintf(buf, sizeof buf, "m3(%s,%s)", n1[i], n2[j]); run(buf, [&] { return m3(*a1[i], *a2[j]); }); }
    for (int i = 0; i < 5; i++) for (int k = 0; k < 5; k++) for (int j = 0; j < 4; j++) {
        std::snprintf(buf, sizeof buf, "m4(%s,1,%s,%s)", n1[i], n1[k], n2[j]); run(buf, [&] { return m4(*a1[i], 1, *a1[k], *a2[j]); }); }
    for (int i = 0; i < 4; i++) for (int j = 0; j < 4; j++) {
        std::snprintf(buf, sizeof buf, "m5(%s,%s,2)", n2[i], n2[j]); run(buf, [&] { return m5(*a2[i], *a2[j], 2); }); }
    // virtual_ptr arguments carry their v-table pointer: the offsets are used (and cross-checked) all the same
    for (int i = 0; i < 5; i++) for (int j = 0; j < 4; j++) {
        std::snprintf(buf, sizeof buf, "m7(%s,%s)", n1[i], n2[j]);
        run(buf, [&] { return m7(virtual_ptr<R1>(*a1[i]), virtual_ptr<R2>(*a2[j])); }); }
    R3 r3; X3 x3;
    run("m6(R3)", [&] { return m6(r3); });
    run("m6(X3)", [&] { return m6(x3); });
#if CHECKED_POLICY
    // phase 2: a class registered later (a library loaded afterwards) joins the third hierarchy to the first;
    // after the second update slots have moved, and offsets generated from the first update are stale
    Late::make();
    Late2::make();
    update<P>();
    std::printf("phase2\n");
    for (auto& m : P::methods) {
        std::printf("ss %s [", m.name.data());
        std::size_t n = 2 * m.arity() - 1;
        for (std::size_t i = 0; i < n; ++i) std::printf(i ? ",%zu" : "%zu", m.slots_strides_ptr[i]);
        std::printf("]\n");
    }
    J j; JJ jj;
    R1* b1[] = {&r1, &x1, &y1, &z, &w, &j};
    const char* k1[] = {"R1", "X1", "Y1", "Z", "W", "J"};
    run("m2(3,JJ)", [&] { return m2(3, jj); });
    run("m5(JJ,X2,2)", [&] { return m5(jj, x2, 2); });
    run("m6(JJ)", [&] { return m6(jj); });
    for (int i = 0; i < 6; i++) { std::snprintf(buf, sizeof buf, "m1(%s)", k1[i]); run(buf, [&] { return m1(*b1[i]); }); }
    for (int jj = 0; jj < 4; jj++) { std::snprintf(buf, sizeof buf, "m2(3,%s)", n2[jj]); run(buf, [&] { return m2(3, *a2[jj]); }); }
    for (int i = 0; i < 6; i++) for (int jj = 0; jj < 4; jj++) {
        std::snprintf(buf, sizeof buf, "m3(%s,%s)", k1[i], n2[jj]); run(buf, [&] { return m3(*b1[i], *a2[jj]); }); }
    for (int i = 0; i < 6; i++) for (int jj = 0; jj < 4; jj++) {
        std::snprintf(buf, sizeof buf, "m4(%s,1,%s,%s)", k1[i], k1[5 - i], n2[jj]); run(buf, [&] { return m4(*b1[i], 1, *b1[5 - i], *a2[jj]); }); }
    for (int i = 0; i < 4; i++) for (int jj = 0; jj < 4; jj++) {
        std::snprintf(buf, sizeof buf, "m5(%s,%s,2)", n2[i], n2[jj]); run(buf, [&] { return m5(*a2[i], *a2[jj], 2); }); }
    for (int i = 0; i < 6; i++) for (int jj = 0; jj < 4; jj++) {
        std::snprintf(buf, sizeof buf, "m7(%s,%s)", k1[i], n2[jj]);
        run(buf, [&] { return m7(virtual_ptr<R1>(*b1[i]), virtual_ptr<R2>(*a2[jj])); }); }
    run("m6(R3)", [&] { return m6(r3); });
    run("m6(X3)", [&] { return m6(x3); });
    run("m6(J)", [&] { return m6(j); });
#endif
    return 0;
}
'''
    return domain, main


def static_offsets_case(name, perm, checked, tampers=(), timeout=900):
    """two-stage build. Returns dict: stageA / stageB -> (rc, stdout, stderr), slots (text of slots.hpp),
    tamper results: list of (description, rc, stdout, stderr)"""
    import re, shutil
    d = os.path.join(CACHE, "so-" + name)
    shutil.rmtree(d, ignore_errors=True)
    os.makedirs(d)
    domain, main = static_offsets_sources(perm, checked)
    open(os.path.join(d, "domain.hpp"), "w").write(domain)
    open(os.path.join(d, "main.cpp"), "w").write(main)
    inc = os.path.join(REPO, "include")
    res = {}

    def build(exe, extra_inc=None):
        cmd = ["g++", "-std=c++17", "-O0", "-g0", "-I" + inc, "-I" + d]
        if extra_inc:
            cmd = ["g++", "-std=c++17", "-O0", "-g0", "-I" + extra_inc, "-I" + inc, "-I" + d]
        r = subprocess.run(cmd + [os.path.join(d, "main.cpp"), "-o", os.path.join(d, exe)], stdout=subprocess.PIPE, stderr=subprocess.PIPE, text=True)
        return r

    def run(exe, args=()):
        try:
            r = subprocess.run([os.path.join(d, exe)] + list(args), stdout=subprocess.PIPE, stderr=subprocess.PIPE, text=True, timeout=timeout)
            return (r.returncode, r.stdout, r.stderr[-2000:])
        except subprocess.TimeoutExpired:
            return (-1, "", "timeout")
    b = build("a.exe")
    if b.returncode != 0:
        res["stageA"] = (None, "", "compile error:\n" + b.stderr[-3000:])
        return res
    gen_dir = os.path.join(d, "gen")
    os.makedirs(gen_dir)
    res["stageA"] = run("a.exe", [os.path.join(gen_dir, "slots.hpp")])
    try:
        res["slots"] = open(os.path.join(gen_dir, "slots.hpp")).read()
    except OSError:
        res["slots"] = ""
    b = build("b.exe", extra_inc=gen_dir)
    res["stageB"] = (None, "", "compile error:\n" + b.stderr[-3000:]) if b.returncode != 0 else run("b.exe")
    res["tampers"] = []
    for k, (mname, which, idx, delta) in enumerate(tampers):
        # change one number of one specialisation
        text = res["slots"]
        pat = re.compile(r"(static_offsets<[^>]*YoMm2_S_%s[^{]*\{static constexpr std::size_t slots\[\] = \{)([^}]*)(\};(?: static constexpr std::size_t strides\[\] = \{)?)([^}]*)" % mname)
        m = pat.search(text)
        if not m:
            res["tampers"].append(("%s %s[%d]" % (mname, which, idx), None, "", "specialisation not found"))
            continue
        slots = [x.strip() for x in m.group(2).split(",") if x.strip()]
        strides = [x.strip() for x in m.group(4).split(",") if x.strip()] if "strides" in m.group(3) else []
        tgt = slots if which == "slot" else strides
        if idx >= len(tgt):
            continue
        tgt[idx] = str(int(tgt[idx]) + delta)
        new = m.group(1) + ", ".join(slots) + m.group(3) + (", ".join(strides) if "strides" in m.group(3) else m.group(4))
        t_dir = os.path.join(d, "t%d" % k)
        os.makedirs(t_dir)
        open(os.path.join(t_dir, "slots.hpp"), "w").write(text[:m.start()] + new + text[m.end():])
        b = build("t%d.exe" % k, extra_inc=t_dir)
        if b.returncode != 0:
            res["tampers"].append(("%s %s[%d]%+d" % (mname, which, idx, delta), None, "", "compile error:\n" + b.stderr[-2000:]))
        else:
            rc, so, se = run("t%d.exe" % k)
            res["tampers"].append(("%s %s[%d]%+d" % (mname, which, idx, delta), rc, so, se))
    shutil.rmtree(d, ignore_errors=True)
    return res


# ------------------------------------------------------------------------------------------------
# C01 / C10: a whole program through the real registration templates and std_rtti

# how a virtual parameter is written: (in the declaration, in a definition, the argument of a call); the
# first of each kind is the plain one. %d is the class; v the parameter's class, c the object's.
# (`const virtual_ptr<K>&` of a plain class is not among them: the library does not compile it.)
FORMS = {
    "V": [("virtual_<K%d&>", "K%d&", "static_cast<K%(v)d&>(o%(c)d)"),
          ("virtual_<const K%d&>", "const K%d&", "static_cast<const K%(v)d&>(o%(c)d)"),
          ("virtual_<K%d*>", "K%d*", "static_cast<K%(v)d*>(&o%(c)d)"),
          ("virtual_<std::shared_ptr<K%d>>", "std::shared_ptr<K%d>", "std::shared_ptr<K%(v)d>(s%(c)d)"),
          ("virtual_<const std::shared_ptr<K%d>&>", "const std::shared_ptr<K%d>&", "std::shared_ptr<K%(v)d>(s%(c)d)")],
    "P": [("VP%d", "VP%d", "VP%(v)d(static_cast<K%(v)d&>(o%(c)d))"),
          ("VSP%d", "VSP%d", "VSP%(v)d(std::shared_ptr<K%(v)d>(s%(c)d))"),
          ("const VSP%d&", "const VSP%d&", "VSP%(v)d(std::shared_ptr<K%(v)d>(s%(c)d))")],
}


def prog_dispatch(reg, rng, grouping="one", policy="default", max_calls=300, forms=True, rotate=None):
    """a program declaring the classes of `reg` (virtual inheritance, pure virtual functions for the
    abstract ones), registering them through the real templates in one of several groupings, declaring and
    defining its methods with the real macros, and calling every method on tuples of concrete classes.
    Returns (source, oracle script lines): the program prints one line per call in the oracle's format."""
    import gen
    n = len(reg.parents)
    anc = gen.ancestors(reg.parents)
    desc = gen.descendants(reg.parents)
    ids = [1000 + i for i in range(n)]
    concrete = [i for i in range(n) if not reg.abstract[i]]
    cls = []
    for i in range(n):
        bases = ", ".join("virtual K%d" % b for b in reg.parents[i])
        body = ["virtual ~K%d() {}" % i] if not reg.parents[i] else []
        if reg.abstract[i]:
            body.append("virtual void abs%d() = 0;" % i)
        for a in sorted(anc[i]):
            if reg.abstract[a]:
                body.append("void abs%d() override {}" % a)
        cls.append("struct K%d%s { %s };" % (i, (" : " + bases) if bases else "", " ".join(body)))
    if grouping == "one":
        regs = ["register_classes(%s);" % ", ".join("K%d" % i for i in range(n))]
    elif grouping == "direct":
        order = list(range(n))
        rng.shuffle(order)
        regs = ["use_classes<%s> YOMM2_GENSYM;" % ", ".join(["K%d" % i] + ["K%d" % b for b in reg.parents[i]]) for i in order]
    else:  # "split": each class with its direct bases and some further ancestors, groups in random order
        order = list(range(n))
        rng.shuffle(order)
        regs = []
        for i in order:
            extra = [a for a in sorted(anc[i]) if a not in reg.parents[i] and rng.random() < 0.5]
            members = [i] + reg.parents[i] + extra
            rng.shuffle(members)
            regs.append("use_classes<%s> YOMM2_GENSYM;" % ", ".join("K%d" % c for c in members))
    decls, defs, calls, script = [], [], [], []
    for h, i in enumerate(range(n)):
        script.append("class %d %d %d %s" % (h + 1, ids[i], 1 if reg.abstract[i] else 0, " ".join(str(ids[c]) for c in [i] + sorted(anc[i]))))
    pol = "" if policy == "default" else ", " + policy
    for m in reg.methods:
        kinds = [ch for ch in m["shape"]]
        vps = iter(m["vp"])
        params, vparam = [], []
        for ch in kinds:
            if ch == "N":
                params.append("int")
            else:
                c = next(vps)
                if rotate is not None:   # every form comes up in turn, whatever the draw
                    rotate += 1
                    f = FORMS[ch][rotate % len(FORMS[ch])]
                else:
                    f = rng.choice(FORMS[ch]) if forms else FORMS[ch][0]
                params.append(f[0] % c)
                vparam.append(f)
        m["forms"] = vparam
        decls.append("declare_method(int, m%d, (%s)%s);" % (m["key"], ", ".join(params), pol))
        script.append("method %d %s %s" % (m["key"], m["shape"], " ".join(str(ids[c]) for c in m["vp"])))
        for d, vp in m["defs"]:
            it = iter(zip(vp, vparam))
            ps = []
            for ch in kinds:
                if ch == "N":
                    ps.append("int")
                else:
                    c, f = next(it)
                    ps.append(f[1] % c)
            defs.append("define_method(int, m%d, (%s)) { return %d; }" % (m["key"], ", ".join(ps), d))
            script.append("def %d %d %s" % (m["key"], d, " ".join(str(ids[c]) for c in vp)))
    script.append("update")
    for m in reg.methods:
        doms = [[c for c in desc[v] if c in concrete] for v in m["vp"]]
        if any(not d_ for d_ in doms):
            continue
        total = 1
        for d_ in doms:
            total *= len(d_)
        import itertools
        tuples = list(itertools.product(*doms)) if total <= max_calls else [tuple(rng.choice(d_) for d_ in doms) for _ in range(max_calls)]
        for t in tuples:
            it = iter(zip(m["vp"], t, m["forms"]))
            args = []
            for ch in m["shape"]:
                if ch == "N":
                    args.append("7")
                else:
                    v, c, f = next(it)
                    args.append(f[2] % {"v": v, "c": c})
            calls.append("run([&] { return m%d(%s); });" % (m["key"], ", ".join(args)))
            script.append("call %d %s" % (m["key"], " ".join(str(ids[c]) for c in t)))
    polt = "YOMM2_DEFAULT_POLICY" if policy == "default" else policy
    src = r'''
#include <yorel/yomm2/keywords.hpp>
#include <cstdio>
#include <map>
#include <memory>
#include <typeinfo>
using namespace yorel::yomm2;
%(classes)s
%(regs)s
%(decls)s
%(defs)s
%(objects)s
static std::map<type_id, int> idof;
template<class F> static void run(F f) {
    try { std::printf("ran %%d\n", f()); }
    catch (const resolution_error& e) {
        std::printf("raised resolution status=%%s arity=%%d types=[", e.status == resolution_error::no_definition ? "ni" : "amb", (int)e.arity);
        for (std::size_t i = 0; i < e.arity; ++i) std::printf(i ? ",%%d" : "%%d", idof.count(e.types[i]) ? idof[e.types[i]] : -1);
        std::printf("]\n");
    }
}
int main() {
%(idmap)s
    update<%(polt)s>();
    %(polt)s::error = [](const error_type& e) { if (auto r = std::get_if<resolution_error>(&e)) throw *r; };
    std::printf("update ok\n");
%(calls)s
    return 0;
}
''' % {"classes": "\n".join(cls + ["using VP%d = virtual_ptr<K%d%s>; using VSP%d = virtual_shared_ptr<K%d%s>;" % (i, i, pol, i, i, pol) for i in range(n)]), "regs": "\n".join(regs), "decls": "\n".join(decls), "defs": "\n".join(defs),
       "objects": "\n".join("static K%d o%d; static std::shared_ptr<K%d> s%d = std::make_shared<K%d>();" % (c, c, c, c, c) for c in concrete),
       "idmap": "\n".join("    idof[(type_id)&typeid(K%d)] = %d;" % (i, ids[i]) for i in range(n)),
       "polt": polt, "calls": "\n".join("    " + c for c in calls)}
    return src, script


# ------------------------------------------------------------------------------------------------
# C07 / C18: registration objects that come and go (libraries loaded and unloaded)

def prog_lifetimes(reg, rng, checkpoints=3, max_calls=80):
    """a program whose class registration objects (`use_classes<...>`, the real templates) live in
    zero-initialised static storage and are constructed and destroyed along a random history, several of
    them registering the same class - some with the identical list of classes, as two libraries built
    from the same header do. At each checkpoint every class is registered by at least one live object; the
    program runs update, prints the class catalog (one line: the sorted class ids of the records) and calls
    every method. Returns (source, oracle script, expected catalog lines)."""
    import gen
    import itertools
    n = len(reg.parents)
    anc = gen.ancestors(reg.parents)
    desc = gen.descendants(reg.parents)
    ids = [1000 + i for i in range(n)]
    concrete = [i for i in range(n) if not reg.abstract[i]]
    cls = []
    for i in range(n):
        bases = ", ".join("virtual K%d" % b for b in reg.parents[i])
        body = ["virtual ~K%d() {}" % i] if not reg.parents[i] else []
        if reg.abstract[i]:
            body.append("virtual void abs%d() = 0;" % i)
        for a in sorted(anc[i]):
            if reg.abstract[a]:
                body.append("void abs%d() override {}" % a)
        cls.append("struct K%d%s { %s };" % (i, (" : " + bases) if bases else "", " ".join(body)))
    # registration units: (members in order); several per class, often identical
    units = []
    for i in range(n):
        base = [i] + list(reg.parents[i])
        for k in range(rng.choice([1, 2, 2, 3])):
            if k == 0 or rng.random() < 0.6:
                members = list(base)
            else:
                members = base + [a for a in sorted(anc[i]) if a not in base and rng.random() < 0.5]
            units.append((i, members))
    decl = []
    for u, (i, members) in enumerate(units):
        decl.append("using U%d = Slot<use_classes<%s>, %d>;" % (u, ", ".join("K%d" % c for c in members), u))
    decls, defs, script = [], [], []
    for m in reg.methods:
        vps = iter(m["vp"])
        params = [("int" if ch == "N" else "virtual_<K%d&>" % next(vps)) for ch in m["shape"]]
        decls.append("declare_method(int, m%d, (%s));" % (m["key"], ", ".join(params)))
        script.append("method %d %s %s" % (m["key"], m["shape"].replace("P", "V"), " ".join(str(ids[c]) for c in m["vp"])))
        for d, vp in m["defs"]:
            it = iter(vp)
            ps = [("int" if ch == "N" else "K%d&" % next(it)) for ch in m["shape"]]
            defs.append("define_method(int, m%d, (%s)) { return %d; }" % (m["key"], ", ".join(ps), d))
            script.append("def %d %d %s" % (m["key"], d, " ".join(str(ids[c]) for c in vp)))
    # the calls of one checkpoint
    call_src, call_script = [], []
    for m in reg.methods:
        doms = [[c for c in desc[v] if c in concrete] for v in m["vp"]]
        if any(not d_ for d_ in doms):
            continue
        total = 1
        for d_ in doms:
            total *= len(d_)
        tuples = list(itertools.product(*doms)) if total <= max_calls else [tuple(rng.choice(d_) for d_ in doms) for _ in range(max_calls)]
        for t in tuples:
            it = iter(t)
            args = [("7" if ch == "N" else "static_cast<K%d&>(o%d)" % (v, c)) for ch, (v, c) in
                    zip(m["shape"], _pair_virtual(m["shape"], m["vp"], t))]
            call_src.append("run([&] { return m%d(%s); });" % (m["key"], ", ".join(args)))
            call_script.append("call %d %s" % (m["key"], " ".join(str(ids[c]) for c in t)))
    # the history
    live, body, catalogs = [], [], []
    handle = [0]
    handles = {}

    def create(u):
        live.append(u)
        body.append("    U%d::make();" % u)
        hs = []
        for c in units[u][1]:
            handle[0] += 1
            hs.append(handle[0])
            listed = [c] + [a for a in units[u][1] if a in anc[c]]
            script.append("class %d %d %d %s" % (handle[0], ids[c], 1 if reg.abstract[c] else 0, " ".join(str(ids[x]) for x in listed)))
        handles[u] = hs

    def destroy(u):
        live.remove(u)
        body.append("    U%d::kill();" % u)
        for h in handles.pop(u):
            script.append("unclass %d" % h)

    def checkpoint():
        for i in range(n):
            if not any(units[u][0] == i for u in live):
                create(rng.choice([u for u in range(len(units)) if units[u][0] == i]))
        body.append("    checkpoint();")
        script.append("update")
        script.extend(call_script)
        catalogs.append("catalog " + " ".join(str(x) for x in sorted(ids[c] for u in live for c in units[u][1])))
    first = [min(u for u in range(len(units)) if units[u][0] == i) for i in range(n)]
    rng.shuffle(first)
    for u in first:
        create(u)
    # every duplicate comes alive while the first registrant still is, so that lifetimes overlap
    for u in range(len(units)):
        if u not in live and rng.random() < 0.7:
            create(u)
    checkpoint()
    for _ in range(checkpoints - 1):
        for _ in range(rng.randint(2, 6)):
            dead = [u for u in range(len(units)) if u not in live]
            if live and (not dead or rng.random() < 0.6):
                # older registrants go first more often than not
                destroy(live[0] if rng.random() < 0.6 else rng.choice(live))
            elif dead:
                create(rng.choice(dead))
        checkpoint()
    src = r'''
#include <yorel/yomm2/keywords.hpp>
#include <algorithm>
#include <cstdio>
#include <map>
#include <new>
#include <typeinfo>
#include <vector>
using namespace yorel::yomm2;
%(classes)s
// a registration object in zero-initialised static storage, as in a library that is loaded and unloaded
template<class T, int N> struct Slot {
    alignas(T) static inline unsigned char buf[sizeof(T)];
    static inline T* p = nullptr;
    static void make() { p = new (buf) T(); }
    static void kill() { p->~T(); p = nullptr; }
};
%(units)s
%(decls)s
%(defs)s
%(objects)s
static std::map<type_id, int> idof;
static int name(type_id t) { return idof.count(t) ? idof[t] : -1; }
template<class F> static void run(F f) {
    try { std::printf("ran %%d\n", f()); }
    catch (const resolution_error& e) {
        std::printf("raised resolution status=%%s arity=%%d types=[", e.status == resolution_error::no_definition ? "ni" : "amb", (int)e.arity);
        for (std::size_t i = 0; i < e.arity; ++i) std::printf(i ? ",%%d" : "%%d", name(e.types[i]));
        std::printf("]\n");
    }
    catch (const unknown_class_error& e) { std::printf("raised unknown_class %%d\n", name(e.type)); }
}
static void checkpoint() {
    try { update(); std::printf("update ok\n"); }
    catch (const unknown_class_error& e) { std::printf("update raised unknown_class %%d\n", name(e.type)); }
    std::vector<int> recs;
    for (auto& c : YOMM2_DEFAULT_POLICY::classes) recs.push_back(name(c.type));
    std::sort(recs.begin(), recs.end());
    std::printf("catalog");
    for (int r : recs) std::printf(" %%d", r);
    std::printf("\n");
%(calls)s
}
int main() {
%(idmap)s
    YOMM2_DEFAULT_POLICY::error = [](const error_type& e) {
        if (auto r = std::get_if<resolution_error>(&e)) throw *r;
        if (auto r = std::get_if<unknown_class_error>(&e)) throw *r;
    };
%(body)s
    return 0;
}
''' % {"classes": "\n".join(cls), "units": "\n".join(decl), "decls": "\n".join(decls), "defs": "\n".join(defs),
       "objects": "\n".join("static K%d o%d;" % (c, c) for c in concrete),
       "idmap": "\n".join("    idof[(type_id)&typeid(K%d)] = %d;" % (i, ids[i]) for i in range(n)),
       "calls": "\n".join("    " + c for c in call_src), "body": "\n".join(body)}
    return src, script, catalogs


def _pair_virtual(shape, vp, t):
    """for each parameter of the shape: (declared class, argument class) of the virtual ones, (None, None) else"""
    out, k = [], 0
    for ch in shape:
        if ch == "N":
            out.append((None, None))
        else:
            out.append((vp[k], t[k]))
            k += 1
    return out


# ------------------------------------------------------------------------------------------------
# C14: one domain (classes, methods, free-function definitions) instantiated for several policies

def prog_policy_template(reg, rng, npol=3, max_calls=60):
    """a program whose classes, methods (`method<Key, Sig, Policy>`) and definitions (free functions registered with
    `add_function`) are written once, as templates over the policy, and installed for several policies obtained by
    rebind - one after the other, with updates and call sweeps of every installed policy in between. The same key,
    the same signature and the same functions serve all policies. Returns (source, oracle script of one sweep,
    number of sweeps): every sweep must print what the oracle says for the registry."""
    import gen
    import itertools
    n = len(reg.parents)
    anc = gen.ancestors(reg.parents)
    desc = gen.descendants(reg.parents)
    ids = [1000 + i for i in range(n)]
    concrete = [i for i in range(n) if not reg.abstract[i]]
    cls = []
    for i in range(n):
        bases = ", ".join("virtual K%d" % b for b in reg.parents[i])
        body = ["virtual ~K%d() {}" % i] if not reg.parents[i] else []
        if reg.abstract[i]:
            body.append("virtual void abs%d() = 0;" % i)
        for a in sorted(anc[i]):
            if reg.abstract[a]:
                body.append("void abs%d() override {}" % a)
        cls.append("struct K%d%s { %s };" % (i, (" : " + bases) if bases else "", " ".join(body)))
    script = ["class %d %d %d %s" % (i + 1, ids[i], 1 if reg.abstract[i] else 0, " ".join(str(ids[c]) for c in [i] + sorted(anc[i]))) for i in range(n)]
    keys, aliases, fns, members, calls = [], [], [], [], []
    twin_script = []
    for m in reg.methods:
        vps = iter(m["vp"])
        params = [("int" if ch == "N" else "virtual_<K%d&>" % next(vps)) for ch in m["shape"]]
        keys.append("struct key%d;" % m["key"])
        aliases.append("template<class P> using M%d = method<key%d, int(%s), P>;" % (m["key"], m["key"], ", ".join(params)))
        script.append("method %d %s %s" % (m["key"], m["shape"].replace("P", "V"), " ".join(str(ids[c]) for c in m["vp"])))
        # a twin method: another key, the same signature, and the very same functions as its definitions
        keys.append("struct twin%d;" % m["key"])
        aliases.append("template<class P> using T%d = method<twin%d, int(%s), P>;" % (m["key"], m["key"], ", ".join(params)))
        twin_script.append("method %d %s %s" % (m["key"] + 100, m["shape"].replace("P", "V"), " ".join(str(ids[c]) for c in m["vp"])))
        for d, vp in m["defs"]:
            it = iter(vp)
            ps = [("int" if ch == "N" else "K%d&" % next(it)) for ch in m["shape"]]
            fns.append("int d%d(%s) { return %d; }" % (d, ", ".join(ps), d))
            members.append("    typename M%d<P>::template add_function<d%d> r%d;" % (m["key"], d, d))
            members.append("    typename T%d<P>::template add_function<d%d> t%d;" % (m["key"], d, d))
            script.append("def %d %d %s" % (m["key"], d, " ".join(str(ids[c]) for c in vp)))
            twin_script.append("def %d %d %s" % (m["key"] + 100, d, " ".join(str(ids[c]) for c in vp)))
    script.extend(twin_script)
    script.append("update")
    for m in reg.methods:
        doms = [[c for c in desc[v] if c in concrete] for v in m["vp"]]
        if any(not d_ for d_ in doms):
            continue
        total = 1
        for d_ in doms:
            total *= len(d_)
        tuples = list(itertools.product(*doms)) if total <= max_calls else [tuple(rng.choice(d_) for d_ in doms) for _ in range(max_calls)]
        for t in tuples:
            args = [("7" if ch == "N" else "static_cast<K%d&>(o%d)" % (v, c)) for ch, (v, c) in zip(m["shape"], _pair_virtual(m["shape"], m["vp"], t))]
            calls.append("    run([&] { return M%d<P>::fn(%s); });" % (m["key"], ", ".join(args)))
            script.append("call %d %s" % (m["key"], " ".join(str(ids[c]) for c in t)))
            calls.append("    run([&] { return T%d<P>::fn(%s); });" % (m["key"], ", ".join(args)))
            script.append("call %d %s" % (m["key"] + 100, " ".join(str(ids[c]) for c in t)))
    pols = ["Pol%d" % k for k in range(npol)]
    body, sweeps = [], 0
    for k, p in enumerate(pols):
        body.append("    static Install<%s> install%d; setup<%s>();" % (p, k, p))
        # after installing policy k, update it and sweep every policy installed so far (the earlier ones again)
        body.append("    update<%s>();" % p)
        for q in pols[:k + 1]:
            body.append("    sweep<%s>();" % q)
            sweeps += 1
    # finally update the first policy again and sweep all
    body.append("    update<%s>();" % pols[0])
    for q in pols:
        body.append("    sweep<%s>();" % q)
        sweeps += 1
    src = r'''
#include <yorel/yomm2/core.hpp>
#include <cstdio>
#include <map>
#include <typeinfo>
using namespace yorel::yomm2;
%(classes)s
%(pols)s
%(keys)s
%(aliases)s
%(fns)s
template<class P> struct Install {
    use_classes<%(allk)s, P> classes;
%(members)s
};
%(objects)s
static std::map<type_id, int> idof;
template<class F> static void run(F f) {
    try { std::printf("ran %%d\n", f()); }
    catch (const resolution_error& e) {
        std::printf("raised resolution status=%%s arity=%%d types=[", e.status == resolution_error::no_definition ? "ni" : "amb", (int)e.arity);
        for (std::size_t i = 0; i < e.arity; ++i) std::printf(i ? ",%%d" : "%%d", idof.count(e.types[i]) ? idof[e.types[i]] : -1);
        std::printf("]\n");
    }
}
template<class P> static void setup() {
    P::error = [](const error_type& e) { if (auto r = std::get_if<resolution_error>(&e)) throw *r; };
}
template<class P> static void sweep() {
    std::printf("update ok\n");
%(calls)s
}
int main() {
%(idmap)s
%(body)s
    return 0;
}
''' % {"classes": "\n".join(cls), "pols": "\n".join("struct %s : default_policy::rebind<%s> {};" % (p, p) for p in pols),
       "keys": "\n".join(keys), "aliases": "\n".join(aliases), "fns": "\n".join(fns), "allk": ", ".join("K%d" % i for i in range(n)),
       "members": "\n".join(members), "objects": "\n".join("static K%d o%d;" % (c, c) for c in concrete),
       "idmap": "\n".join("    idof[(type_id)&typeid(K%d)] = %d;" % (i, ids[i]) for i in range(n)),
       "calls": "\n".join(calls), "body": "\n".join(body)}
    return src, script, sweeps
