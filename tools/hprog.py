"""H-prog: generated programs with real C++ classes, compiled against /repo's working tree
(DESIGN.md 3.3). Each program prints canonical lines; the model predicts them."""
import hashlib
import os
import subprocess
import sys

HERE = os.path.dirname(os.path.abspath(__file__))
VERIF = os.path.dirname(HERE)
REPO = os.environ.get("VERIF_REPO", "/repo")
CACHE = os.path.join(VERIF, ".cache", "prog")


def build_and_run(programs, flags=None, timeout=900, jobs=None, compiler="g++", env=None, runs=1):
    """programs: list of (name, source). Returns {name: (rc, stdout, stderr or compile error)}"""
    os.makedirs(CACHE, exist_ok=True)
    flags = flags or ["-std=c++17", "-O0", "-g0"]
    jobs = jobs or (os.cpu_count() or 8)
    out = {}
    pending = list(programs)
    running = []
    inc = os.path.join(REPO, "include")

    def start(name, src):
        h = hashlib.sha256((src + " ".join(flags) + compiler).encode()).hexdigest()[:12]
        base = os.path.join(CACHE, "%s-%s" % (name, h))
        with open(base + ".cpp", "w") as f:
            f.write(src)
        p = subprocess.Popen([compiler] + flags + ["-I" + inc, base + ".cpp", "-o", base + ".exe"],
                             stdout=subprocess.PIPE, stderr=subprocess.PIPE, text=True)
        return (name, base, p)
    while pending or running:
        while pending and len(running) < jobs:
            running.append(start(*pending.pop(0)))
        name, base, p = running.pop(0)
        so, se = p.communicate()
        if p.returncode != 0:
            out[name] = (None, "", "compile error:\n" + se[-3000:])
        else:
            try:
                r = subprocess.run([base + ".exe"], stdout=subprocess.PIPE, stderr=subprocess.PIPE, text=True, timeout=timeout, env=env)
                out[name] = (r.returncode, r.stdout, r.stderr[-3000:])
            except subprocess.TimeoutExpired:
                out[name] = (-1, "", "timeout")
        for ext in (".cpp", ".exe"):
            try:
                os.remove(base + ext)
            except OSError:
                pass
    return out


# ------------------------------------------------------------------------------------------------
# C20: use_definitions over a product with holes

def prog_use_definitions(nl, nr, holes):
    ls = ", ".join("L<%d>" % i for i in range(nl))
    rs = ", ".join("R<%d>" % i for i in range(nr))
    hole_specs = "\n".join("template<> struct definition<M, L<%d>, R<%d>> : not_defined {};" % h for h in holes)
    return r'''
#include <yorel/yomm2/core.hpp>
#include <yorel/yomm2/symbols.hpp>
#include <yorel/yomm2/templates.hpp>
#include <algorithm>
#include <cstdio>
#include <map>
#include <typeinfo>
#include <vector>
using namespace yorel::yomm2;
struct Base { virtual ~Base() {} };
template<int I> struct L : Base {};
template<int I> struct R : Base {};
use_classes<Base, %(ls)s, %(rs)s> YOMM2_GENSYM;
struct key;
using M = method<key, int(virtual_<Base&>, virtual_<Base&>)>;
template<class T> struct idx;
template<int I> struct idx<L<I>> { static constexpr int v = I; static constexpr char side = 'L'; };
template<int I> struct idx<R<I>> { static constexpr int v = I; static constexpr char side = 'R'; };
template<typename Method, typename A, typename B>
struct definition { static int fn(A&, B&) { return 1000 * idx<A>::v + idx<B>::v; } };
%(holes)s
using TL = types<%(ls)s>;
using TR = types<%(rs)s>;
using P = product<types<M>, TL, TR>;
use_definitions<definition, P> YOMM2_GENSYM;
static std::map<type_id, int> left, right;
template<int... I> void fill_l(std::integer_sequence<int, I...>) { ((left[(type_id)&typeid(L<I>)] = I), ...); }
template<int... I> void fill_r(std::integer_sequence<int, I...>) { ((right[(type_id)&typeid(R<I>)] = I), ...); }
template<class Mm, class A, class B> void show(boost::mp11::mp_identity<types<Mm, A, B>>) { std::printf(" %%d:%%d", idx<A>::v, idx<B>::v); }
int main() {
    fill_l(std::make_integer_sequence<int, %(nl)d>{});
    fill_r(std::make_integer_sequence<int, %(nr)d>{});
    std::printf("product");
    boost::mp11::mp_for_each<boost::mp11::mp_transform<boost::mp11::mp_identity, P>>([](auto t) { show(t); });
    std::printf("\n");
    std::vector<std::pair<int, int>> regs;
    for (auto& d : M::fn.specs) {
        regs.push_back({left.at(d.vp_begin[0]), right.at(d.vp_begin[1])});
    }
    std::sort(regs.begin(), regs.end());
    std::printf("registered");
    for (auto& r : regs) std::printf(" %%d:%%d", r.first, r.second);
    std::printf("\n");
    update();
    set_error_handler([](const error_type& e) {
        if (auto r = std::get_if<resolution_error>(&e)) throw *r;
    });
    // dispatch through each combination
    std::vector<Base*> ls = { %(lnew)s };
    std::vector<Base*> rs = { %(rnew)s };
    std::printf("calls");
    for (int i = 0; i < %(nl)d; ++i)
        for (int j = 0; j < %(nr)d; ++j) {
            try { int r = M::fn(*ls[i], *rs[j]); std::printf(" %%d", r); }
            catch (const resolution_error& e) { std::printf(" E"); }
        }
    std::printf("\n");
    return 0;
}
''' % {"ls": ls, "rs": rs, "holes": hole_specs, "nl": nl, "nr": nr,
       "lnew": ", ".join("new L<%d>" % i for i in range(nl)), "rnew": ", ".join("new R<%d>" % i for i in range(nr))}
