#!/bin/bash
# runs every quick check at several VERIF_SEED values on the tree as it is: any VIOLATION here is a false alarm to fix
cd "$(dirname "$0")/.."
export VERIF_REPO="${VERIF_REPO:-${VP_RUN_REPO:-/repo}}"
for seed in ${@:-2 3 4 5}; do
  for c in $(python3 -c "import json;print(' '.join(x['property_id'] for x in json.load(open('MANIFEST.json'))['checks']))"); do
    out=$(VERIF_SEED=$seed python3 tools/verif.py check $c --tier quick 2>&1); rc=$?
    echo "seed=$seed $c rc=$rc $(echo "$out" | grep -E 'VIOLATION' | head -1)"
  done
done
