"""Per-property checks (DESIGN.md section 5). Each check builds script batteries, runs them through
the implementation and the model, and on disagreement searches for a failing input."""
import itertools
import json
import os
import random
import re

import gen
import verif
from verif import Check, log

CORPUS = os.path.join(verif.VERIF, "corpus")


def tier_n(ck, quick, thorough):
    return thorough if ck.tier == "thorough" else quick


def load_corpus(prop):
    """scripts kept from past disagreements / defect witnesses: corpus/<prop>/*.txt"""
    d = os.path.join(CORPUS, prop)
    out = []
    if os.path.isdir(d):
        for f in sorted(os.listdir(d)):
            if f.endswith(".txt"):
                lines = [l.rstrip("\n") for l in open(os.path.join(d, f)) if l.strip() and not l.startswith("#")]
                out.append(("corpus-" + f[:-4], lines))
    return out


def strip_dump(scripts):
    return [(n, [l for l in ls if l.strip() != "dump"]) for n, ls in scripts]


def obligations(ck, prefix):
    """property theorems of this check, from the audit"""
    names = sorted(n for n in ck.lean.theorems if n.startswith("Yomm2.Props." + prefix + "."))
    return names


def proof_coverage(ck, prefixes, extra=None):
    names = []
    for p in prefixes:
        names += obligations(ck, p)
    cov = {
        "obligations": len(names),
        "discharged": len(names) if ck.lean.ok else 0,
        "checker_cmd": "cd /verif/lean && lake build && lake env lean Audit.lean   (run by tools/verif.py on every check)",
        "trusted_base": [
            "Lean 4.33.0 kernel",
            "axioms used: " + ", ".join(sorted({a for n in names for a in ck.lean.theorems.get(n, [])}) or ["none"]),
            "hand-written model Yomm2/Model/*.lean tied to /repo by the differential correspondence of this run",
            "harness/dyn (H-dyn), tools/gen.py generators, tools/verif.py diff",
        ],
        "theorems": names,
    }
    lc = getattr(ck, "leanchecker", None)
    if lc:
        cov["leanchecker"] = lc
    if extra:
        cov.update(extra)
    return cov


# properties about dispatch results: when the correspondence breaks on scripts that show no wrong call, a
# wider family of registries (lattices, every presentation, random record order, all calls) is searched
ESCALATE = ("C01", "C02", "C03", "C04", "C06", "C08", "C17")


def escalate(ck, n=1500):
    rng = random.Random(repr((ck.seed, ck.prop, "escalate")))
    cand = []
    for i in range(n):
        pol = rng.choice(["plain", "map", "fast", "indirect", "proj"])
        reg = gen.gen_registry(rng)
        while not any(len(p) > 1 for p in reg.parents) and rng.random() < 0.85:
            reg = gen.gen_registry(rng)
        style = rng.choice(gen.STYLES)
        lines, _ = gen.emit_script(rng, reg, pol, style=style, dump=False, callnext=(ck.prop == "C03"), shuffle=True)
        cand.append(("e%d-%s-%s-%s" % (i, pol, style, reg.family), lines))
    log("escalating: %d lattice registries in random record order against the specification oracle" % n)
    obad = verif.oracle_check(ck.exe, cand)
    if not obad:
        return None
    name = obad[0][0]
    lines = dict(cand)[name]
    small = verif.shrink(lines, lambda ls: bool(verif.oracle_check(ck.exe, [(name, ls)])))
    o2 = verif.oracle_check(ck.exe, [(name, small)])
    return (name, small, o2[0] if o2 else obad[0])


def correspondence(ck, scripts, what, oracle=True, extra_oracle=None):
    """run scripts through implementation and model; on mismatch search for a failing input.
    Returns (impl_out, model_out, n_bad)"""
    impl_out, model_out, bad, err = verif.run_pair(ck.exe, scripts)
    if not bad:
        return impl_out, model_out, 0
    log("%d of %d scripts disagree (%s); searching for a failing input" % (len(bad), len(scripts), what))
    by_name = dict(scripts)
    found = None
    if oracle:
        cand = strip_dump([(b[0], by_name[b[0]]) for b in bad[:40]])
        obad = verif.oracle_check(ck.exe, cand)
        if obad:
            name = obad[0][0]
            lines = dict(cand)[name]

            def still(ls):
                return bool(verif.oracle_check(ck.exe, [(name, ls)]))
            small = verif.shrink(lines, still)
            o2 = verif.oracle_check(ck.exe, [(name, small)])
            found = (name, small, o2[0] if o2 else obad[0])
    if found is None and extra_oracle:
        found = extra_oracle(bad, by_name, impl_out)
        if found and len(found) == 3 and isinstance(found[2], dict):
            name, small, payload = found
            payload.setdefault("property", ck.prop)
            payload.setdefault("script", small)
            payload.setdefault("seed", ck.seed)
            ck.violation(verif.write_replay(ck.prop, name, payload), True)
            return impl_out, model_out, len(bad)
    if found is None and oracle and ck.prop in ESCALATE:
        found = escalate(ck)
    if found is None:
        # the real code crashes, aborts or trips a sanitizer on an operation the model completes
        def crashed(bd):
            return [x for x in bd if x[2].startswith(("!signal", "!exit")) and not x[3].startswith("!")]
        cr = crashed(bad)
        # prefer a script on which the model's own result is known (a hashed policy that died inside
        # update never reported the multipliers its model needs)
        cr.sort(key=lambda x: "multiplier stream exhausted" in x[3])
        if cr:
            name = cr[0][0]

            def still_crashes(ls):
                return bool(crashed(verif.run_pair(ck.exe, [(name, ls)])[2]))
            small = verif.shrink(by_name[name], still_crashes)
            io, mo, bd, _ = verif.run_pair(ck.exe, [(name, small)])
            c2 = crashed(bd) or cr
            path = verif.write_replay(ck.prop, name, {
                "property": ck.prop,
                "kind": "failing input: the implementation crashes, aborts or trips a sanitizer on an operation that the model completes",
                "seed": ck.seed, "script": small, "at_line": c2[0][1], "implementation": c2[0][2], "model": c2[0][3],
                "how_to_replay": "python3 tools/verif.py replay <this file>",
            })
            ck.violation(path, True)
            return impl_out, model_out, len(bad)
    if found:
        name, small, detail = found
        path = verif.write_replay(ck.prop, name, {
            "property": ck.prop, "kind": "failing input (implementation differs from the specification oracle)",
            "seed": ck.seed, "script": small,
            "implementation": detail[2] if len(detail) > 2 else None,
            "specification": detail[3] if len(detail) > 3 else None,
            "how_to_replay": "python3 tools/verif.py replay <this file>",
        })
        ck.violation(path, True)
    else:
        name, i, a, b = bad[0]
        path = verif.write_replay(ck.prop, name, {
            "property": ck.prop,
            "kind": "correspondence broken: implementation and model differ; no call was found on which the implementation violates the specification",
            "correspondence": what, "seed": ck.seed, "script": by_name[name],
            "first_difference": {"line": i, "implementation": a, "model": b},
            "disagreeing_scripts": len(bad), "scripts": len(scripts),
            "theorems_concerned": obligations(ck, ck.prop),
        })
        ck.violation(path, False)
    return impl_out, model_out, len(bad)


def count_lines(outs, prefix):
    return sum(1 for ls in outs.values() for l in ls if l.startswith(prefix))


# ----------------------------------------------------------------------------------------------------
# the dispatch family: C01 C02 C03 C04 C06 C08 C17

def two_phase(rng, lines):
    """the same registrations made in two instalments with an update after each (a program that loads a
    module later): all the classes and some of the methods first, the other methods afterwards"""
    k = lines.index("update")
    pre, post = lines[:k], lines[k + 1:]
    keys = sorted({int(l.split()[1]) for l in pre if l.startswith("method ")})
    first = set(rng.sample(keys, rng.randint(0, max(0, len(keys) - 1)))) if keys else set()

    def key_of(l):
        t = l.split()
        return int(t[1]) if t[0] in ("method", "def", "call", "callnext") else None
    a = [l for l in pre if key_of(l) is None or key_of(l) in first]
    b = [l for l in pre if key_of(l) is not None and key_of(l) not in first]
    calls1 = [l for l in post if l.split()[0] in ("call", "callnext") and key_of(l) in first]
    return a + ["update"] + calls1[:60] + b + ["update"] + post


def gen_dispatch_scripts(ck, n, policies=None, styles=None, shapes=None, emphasis=None, dump=True, callnext=True):
    rng = random.Random(ck.seed * 7919 + hash(ck.prop) % 1000)
    rng = random.Random((ck.seed, ck.prop, "dispatch").__repr__())
    scripts, stats = [], []
    for i in range(n):
        pol = rng.choice(policies or gen.POLICIES)
        kw = {}
        if emphasis == "lattice":
            reg = gen.gen_registry(rng, shapes=shapes)
            while not any(len(p) > 1 for p in reg.parents) and rng.random() < 0.8:
                reg = gen.gen_registry(rng, shapes=shapes)
        elif emphasis == "multi":
            reg = gen.gen_registry(rng, shapes=shapes or ["VV", "PV", "VNV", "NVVN", "VVV", "VPNV", "VVVV", "PP"], max_defs=8)
        elif emphasis == "abstract":
            reg = gen.gen_registry(rng, shapes=shapes, abstract_p=0.45)
        else:
            reg = gen.gen_registry(rng, shapes=shapes)
        style = rng.choice(styles or gen.STYLES)
        lines, meta = gen.emit_script(rng, reg, pol, style=style, dump=dump, callnext=callnext)
        name = "g%d-%s-%s-%s" % (i, pol, style, reg.family)
        if rng.random() < 0.12:
            lines = two_phase(rng, lines)
            name += "-2ph"
        scripts.append((name, lines))
        st = reg.stats()
        st.update(policy=pol, style=style, calls=meta["calls"])
        stats.append(st)
    return scripts, stats


def distribution(stats, impl_out):
    d = {
        "registries": len(stats),
        "with_multiple_inheritance": sum(1 for s in stats if s["multi_inheritance"]),
        "by_family": {}, "by_policy": {}, "by_style": {}, "by_max_arity": {},
        "classes_hist": {}, "calls": sum(s["calls"] for s in stats),
    }
    for s in stats:
        for k, f in (("by_family", "family"), ("by_policy", "policy"), ("by_style", "style"), ("by_max_arity", "max_arity"), ("classes_hist", "classes")):
            d[k][str(s[f])] = d[k].get(str(s[f]), 0) + 1
    ran = ni = amb = 0
    for ls in impl_out.values():
        for l in ls:
            if l.startswith("ran ") and not l.startswith("ran ["):
                ran += 1
            elif "status=ni" in l:
                ni += 1
            elif "status=amb" in l:
                amb += 1
    d["call_outcomes"] = {"ran": ran, "not_implemented": ni, "ambiguous": amb}
    return d


def nontrivial_registries(stats, impl_out, scripts):
    """distinct scripts with >= 1 unique, >= 1 error outcome"""
    seen = set()
    n = 0
    for name, lines in scripts:
        out = impl_out.get(name, [])
        has_ran = any(l.startswith("ran ") and not l.startswith("ran [") for l in out)
        has_err = any("raised resolution" in l for l in out)
        key = "\n".join(l for l in lines if not l.startswith("policy"))
        if has_ran and has_err and key not in seen:
            seen.add(key)
            n += 1
    return n


def parse_dump(lines):
    """classes / methods of the last dump in an output"""
    classes, methods = [], []
    for l in lines:
        m = re.match(r"class (\d+) ids=\[(.*?)\] abs=(\d) tb=\[(.*?)\] direct=\[(.*?)\] derived=\[(.*?)\] cov=\[(.*?)\] first=(\d+) vp=(-?\d+) vtbl=\[(.*?)\]", l)
        if m:
            f = lambda s: [int(x) for x in s.split(",") if x]
            classes.append({"i": int(m.group(1)), "ids": f(m.group(2)), "abs": int(m.group(3)), "tb": f(m.group(4)),
                            "direct": f(m.group(5)), "derived": f(m.group(6)), "cov": f(m.group(7)), "first": int(m.group(8)),
                            "vp": int(m.group(9)), "vtbl": [tuple(int(y) for y in x.split(".")) for x in m.group(10).split(",") if x]})
        m = re.match(r"method (-?\d+) slots=\[(.*?)\] strides=\[(.*?)\] table=\[(.*?)\] next=\[(.*?)\] report=(.*)", l)
        if m:
            f = lambda s: [int(x) for x in s.split(",") if x]
            methods.append({"key": int(m.group(1)), "slots": f(m.group(2)), "strides": f(m.group(3)), "table": m.group(4).split(",") if m.group(4) else [],
                            "next": m.group(5).split(",") if m.group(5) else [], "report": f(m.group(6))})
    return classes, methods


def certificate_c04(classes, methods, cov_of_vp):
    """C04 on a dump: every (method, param) applicable to a class has its own in-range cell"""
    problems = []
    for c in classes:
        owners = {}
        for mi, m in enumerate(methods):
            for p, slot in enumerate(m["slots"]):
                if c["i"] in cov_of_vp.get((mi, p), []):
                    idx = slot - c["first"]
                    if idx < 0 or idx >= len(c["vtbl"]):
                        problems.append("class %d: slot %d of (%d,%d) outside its v-table" % (c["i"], slot, mi, p))
                        continue
                    if idx in owners:
                        problems.append("class %d: cell %d shared by %s and %s" % (c["i"], slot, owners[idx], (mi, p)))
                    owners[idx] = (mi, p)
                    e = c["vtbl"][idx]
                    if (e[0], e[1]) != (mi, p):
                        problems.append("class %d: cell %d holds %s, expected (%d,%d)" % (c["i"], slot, e, mi, p))
    return problems


def many_definitions_scripts(rng, n):
    """methods with more definitions than a machine word has bits (the candidate sets are bit vectors): `ghost`
    definitions on one class fill the first positions, and a definition registered after them is the only one
    applicable to another class - around 64 and 128 definitions, uni- and bi-methods, the root abstract so that the
    concrete-only flags of the report depend on the late definition too"""
    out = []
    for i in range(n):
        pol = rng.choice(["plain", "fast", "map", "checked"])
        ghosts = rng.choice([62, 63, 64, 65, 66, 127, 128, 129, 130])
        bi = rng.random() < 0.4
        late_first = rng.random() < 0.2            # sometimes the interesting definition comes first instead
        lines = ["policy " + pol, "class 1 10 1 10", "class 2 11 0 11 10", "class 3 12 0 12 10", "class 4 13 0 13 12 10"]
        if bi:
            lines.append("method 0 VV 10 10")
            late = ["def 0 100 12 12", "def 0 101 13 12"]
            g = "ghostdefs 0 %d 11 11" % ghosts
            calls = ["#full 0"] + ["call 0 %d %d" % (a_, b_) for a_ in (10, 11, 12, 13) for b_ in (10, 11, 12, 13)]
        else:
            lines.append("method 0 V 10")
            late = ["def 0 100 12", "def 0 101 13"]
            g = "ghostdefs 0 %d 11" % ghosts
            calls = ["#full 0"] + ["call 0 %d" % a_ for a_ in (10, 11, 12, 13)]
        lines += (late + [g]) if late_first else ([g] + late)
        lines += ["update", "dump"] + calls
        out.append(("many%d-%s-%d%s" % (i, pol, ghosts, "-bi" if bi else ""), lines))
    return out


def check_dispatch_family(ck, n_quick, n_thorough, what, **kw):
    n = tier_n(ck, n_quick, n_thorough)
    scripts = load_corpus(ck.prop) + load_corpus("dispatch")
    gscripts, stats = gen_dispatch_scripts(ck, n, **kw)
    scripts += gscripts
    scripts += many_definitions_scripts(random.Random(repr((ck.seed, ck.prop, "many-definitions"))), tier_n(ck, 12, 60))
    impl_out, model_out, nbad = correspondence(ck, scripts, what)
    # the implementation against the specification oracle directly, on a slice
    k = max(50, len(gscripts) // 4)
    obad = verif.oracle_check(ck.exe, strip_dump(gscripts[:k]))
    if obad and not ck.violations:
        name = obad[0][0]
        lines = dict(strip_dump(gscripts))[name]
        small = verif.shrink(lines, lambda ls: bool(verif.oracle_check(ck.exe, [(name, ls)])))
        path = verif.write_replay(ck.prop, name, {"property": ck.prop, "kind": "failing input (implementation differs from the specification oracle)",
                                                   "seed": ck.seed, "script": small, "detail": obad[0][1:]})
        ck.violation(path, True)
    crashes = [n_ for n_, ls in impl_out.items() if any(l.startswith(("!signal", "!exit")) for l in ls)]
    return scripts, gscripts, stats, impl_out, model_out, crashes


def std_evidence(ck, prefixes, scripts, gscripts, stats, impl_out, extra=None):
    dist = distribution(stats, impl_out)
    cov = proof_coverage(ck, prefixes, {
        "evaluations": len(scripts),
        "distinct_nontrivial": nontrivial_registries(stats, impl_out, scripts),
        "rule": "scripts = corpus + registries drawn by tools/gen.py (class DAG family x presentation style x policy x "
                "shapes, shuffled registration order), each followed by update, a dump of every table and a sweep of "
                "calls; non-trivial = distinct script on which at least one call ran a definition and at least one "
                "raised a resolution error; every canonical line must be equal between implementation and model",
        "traces_validated_against_impl": len(scripts),
        "input_distribution": dist,
        "samples": [{"name": n, "script": ls[:60]} for n, ls in gscripts[:2]],
    })
    if extra:
        cov.update(extra)
    ck.coverage = cov
    ck.assumptions = [
        "the model mirrors detail/compiler.hpp, core.hpp and the policy headers by hand; the tie is the exact "
        "line-by-line agreement measured in this run (differential testing, as wide as the generators)",
        "class registrations are acyclic (guaranteed by C++ inheritance)",
        "std::sort is modelled as insertion sort (libstdc++, at most 16 listed bases per class)",
    ]


def whole_programs(ck, n, policies=("default",), shapes=("V", "VV", "VNV", "PV", "NV", "P", "VVV", "NVVN"), big_product=None):
    """generated C++ programs: real classes (virtual inheritance, abstract classes), the real registration
    templates in several groupings, the real macros, std_rtti; every call compared with the specification
    oracle. Returns the evidence entry; records a violation on a difference."""
    import hprog
    rng = random.Random(repr((ck.seed, ck.prop, "whole-programs")))
    progs, scripts, meta = [], [], []
    for i in range(n):
        reg = gen.gen_registry(rng, n_classes=rng.randint(3, 8), shapes=list(shapes), abstract_p=0.2)
        while not reg.methods:
            reg = gen.gen_registry(rng, n_classes=rng.randint(3, 8), shapes=list(shapes), abstract_p=0.2)
        grouping = ["one", "direct", "split"][i % 3]
        pol = policies[i % len(policies)]
        src, sc = hprog.prog_dispatch(reg, rng, grouping=grouping, policy=pol, rotate=i)
        name = "wp%d-%s-%s" % (i, grouping, reg.family)
        progs.append((name, src))
        scripts.append((name, ["policy plain"] + sc))
        meta.append({"program": name, "classes": len(reg.parents), "multiple_inheritance": any(len(p_) > 1 for p_ in reg.parents),
                     "abstract": sum(1 for a_ in reg.abstract if a_), "methods": len(reg.methods), "grouping": grouping, "policy": pol})
    # one program whose definitions are registered by use_definitions over a product larger than the 512
    # elements at which aggregate splits (odd size): every pair must run its own definition
    big = None
    if big_product:
        nl, nr = big_product
        big = "wp-usedefs-%dx%d" % (nl, nr)
        progs.append((big, hprog.prog_use_definitions(nl, nr, [])))
        lid = [2000 + a for a in range(nl)]
        rid = [5000 + b for b in range(nr)]
        sc = ["class 1 1000 0 1000"] + ["class %d %d 0 %d 1000" % (2 + k, c, c) for k, c in enumerate(lid + rid)]
        sc += ["method 0 VV 1000 1000"] + ["def 0 %d %d %d" % (1000 * a + b, lid[a], rid[b]) for a in range(nl) for b in range(nr)]
        sc += ["update"] + ["call 0 %d %d" % (lid[a], rid[b]) for a in range(nl) for b in range(nr)]
        scripts.append((big, ["policy plain"] + sc))
    res = hprog.build_and_run(progs, jobs=16)
    orc = verif.run_model(scripts, mode="--oracle")
    calls = raised = 0
    if big:
        rc, so, se = res[big]
        progs.pop()
        _, bsc = scripts.pop()
        want = [l.split()[1] if l.startswith("ran ") else "E" for l in orc.get(big, [])[1:]]
        got = next((l.split()[1:] for l in so.splitlines() if l.startswith("calls")), [])
        calls += len(got)
        big_meta = {"program": big, "definitions_registered_by_use_definitions": nl * nr, "calls": len(got)}
        if rc != 0 or got != want:
            d_ = [(k_, a_, b_) for k_, (a_, b_) in enumerate(zip(got, want)) if a_ != b_][:3]
            found = rc == 0 and bool(d_)
            ck.violation(verif.write_replay(ck.prop, big, {
                "property": ck.prop,
                "kind": ("failing input: with %d definitions registered through use_definitions, a call does not run the definition the specification prescribes" % (nl * nr)
                         if found else "the use_definitions program does not compile, crashed, or printed fewer results than the oracle"),
                "first_differences(call number, program, specification)": d_,
                "calls": [[c_ for c_ in bsc if c_.startswith("call ")][k_] for k_, _, _ in d_],
                "rc": rc, "stderr": se[-1500:], "program": "tools/hprog.py prog_use_definitions(%d, %d, [])" % (nl, nr)}), found)
    for (name, src), (_, sc), mt in zip(progs, scripts, meta):
        rc, so, se = res[name]
        got, want = so.splitlines(), orc.get(name, [])
        mt["calls"] = max(0, len(got) - 1)
        mt["forms"] = sorted(set(re.sub(r"K\d+", "K", f_) for f_ in re.findall(r"virtual_<[^,()]*>|const VSP|VSP|VP", " ".join(l for l in src.splitlines() if l.startswith("declare_method")))))
        calls += mt["calls"]
        raised += sum(1 for l in got if l.startswith("raised"))
        if (rc != 0 or got != want) and not any(f_ for _, f_ in ck.violations):
            d_ = [(k_, a_, b_) for k_, (a_, b_) in enumerate(zip(got, want)) if a_ != b_][:3]
            found = rc == 0 and bool(d_)
            call_lines = [l for l in sc if l.startswith(("update", "call "))]
            ck.violation(verif.write_replay(ck.prop, name, {
                "property": ck.prop,
                "kind": ("failing input: a compiled program (real registration templates, macros and std_rtti) runs another definition, or reports another error, than the specification prescribes"
                         if found else "the generated program does not compile, crashed, or printed fewer lines than the oracle"),
                "first_differences(line, program, specification)": d_,
                "calls": [call_lines[k_] for k_, _, _ in d_ if k_ < len(call_lines)],
                "rc": rc, "stderr": se[-1500:], "oracle_script": sc, "source": src}), found)
    if big:
        meta.append(big_meta)
    return {"programs": len(meta), "calls_compared_with_the_specification": calls, "raised": raised, "cases": meta}


def compare_source(ck, scripts, which, limit=400):
    """the bodies of is_more_specific / is_base as translated from compiler.hpp on this run (Sel.exec, driver --src)
    against the compiled functions, on every pair of definitions of every method of the given registries. Validates
    the translator and the meaning given to its constructors; yields the failing pair when the proofs about the
    translated source no longer check. `which`: "ms" or "base" decides which matrix makes a violation of this property."""
    reg_ops = ("policy", "class", "method", "def", "static", "budget")
    batch = []
    for name, lines in scripts:
        if sum(1 for l in lines if l.strip() == "update") != 1:
            continue
        k = lines.index("update")
        pre = [l for l in lines[:k] if l.split() and l.split()[0] in reg_ops]
        if any(l.startswith("policy") for l in pre):
            batch.append(("src-" + name, pre + ["update", "cmpmatrix"]))
        if len(batch) >= limit:
            break
    impl_out, _ = verif.run_impl(ck.exe, batch)
    src_out = verif.run_model(verif.inject_rng(batch, impl_out), mode="--src")
    pairs = methods = 0
    first = None
    for name, lines in batch:
        a = [l for l in verif.visible(impl_out.get(name, [])) if l.startswith("cmp ")]
        b = [l for l in src_out.get(name, []) if l.startswith("cmp ")]
        for x, y in zip(a, b):
            methods += 1
            m = re.match(r"cmp (-?\d+) n=(\d+) ms=(\S*) base=(\S*) best=(\S*)", x)
            if m:
                pairs += int(m.group(2)) ** 2
            if x != y and first is None:
                my = re.match(r"cmp (-?\d+) n=(\d+) ms=(\S*) base=(\S*) best=(\S*)", y)
                col = 3 if which == "ms" else 4
                if m and my and which == "ms" and m.group(col) == my.group(col) and m.group(5) != my.group(5):
                    ka, kb = m.group(5).split("|"), my.group(5).split("|")
                    pos = next(i for i, (p_, q_) in enumerate(zip(ka, kb)) if p_ != q_)
                    first = (name, lines, {"method": int(m.group(1)), "function": "best", "candidate_set(prefixes of the method's definitions, then suffixes)": pos,
                                           "compiled_function_returns(positions)": ka[pos], "translated_source_returns": kb[pos],
                                           "implementation_line": x, "translated_line": y})
                elif m and my and m.group(col) != my.group(col):
                    n_ = int(m.group(2))
                    pos = next(i for i, (p_, q_) in enumerate(zip(m.group(col), my.group(col))) if p_ != q_)
                    first = (name, lines, {"method": int(m.group(1)), "definitions(a, b) by position among the method's definitions": [pos // n_, pos % n_],
                                           "compiled_function": m.group(col)[pos], "translated_source": my.group(col)[pos],
                                           "implementation_line": x, "translated_line": y})
        if len(a) != len(b) and first is None and (a or b):
            first = (name, lines, {"implementation_lines": a[:3], "translated_lines": b[:3]})
    if first and not any(f_ for _, f_ in ck.violations):
        name, lines, detail = first
        fn = detail.get("function") or ("is_more_specific" if which == "ms" else "is_base")
        detail.update({"property": ck.prop, "script": lines, "seed": ck.seed,
                       "kind": "the body of compiler<Policy>::%s as translated from the header on this run (Sel.exec) and the compiled function "
                               "disagree on a pair of definitions" % fn})
        ck.violation(verif.write_replay(ck.prop, name, detail), False)
    return {"file": "lean/Yomm2/Generated/CompareSrc.lean (tools/cpp2lean.py, from clang's AST of detail/compiler.hpp)",
            "registries": len(batch), "methods": methods, "pairs_of_definitions_compared": pairs,
            "differences_from_compiled_function": 0 if first is None else 1, "translator_messages": getattr(ck.lean, "notes", [])}


def check_C01(ck):
    r = check_dispatch_family(ck, 1200, 20000, "C01: tables, slots, dispatch data and every call outcome")
    wp = whole_programs(ck, tier_n(ck, 12, 90), policies=("default", "default", "::yorel::yomm2::policy::debug"), big_product=(19, 27))
    src = compare_source(ck, r[0], "ms")
    std_evidence(ck, ["C01", "C01src"], *r[:4], extra={"whole_programs": wp, "translated_source_of_is_more_specific": src})


def c03_next_cells(scripts, impl_out):
    """every definition's installed `next` against the specification's (nextB on the registry)"""
    orc = verif.run_model(verif.inject_rng(scripts, impl_out), mode="--oracle")
    compared = 0
    for name, lines in scripts:
        spec = {}
        for l in orc.get(name, []):
            m = re.match(r"specnext (-?\d+) \[(.*)\]", l)
            if m:
                spec[int(m.group(1))] = m.group(2).split(",") if m.group(2) else []
        _, methods = parse_dump(impl_out.get(name, []))
        for m in methods:
            if m["key"] in spec:
                compared += 1
                if m["next"] != spec[m["key"]]:
                    return compared, (name, lines, {"kind": "failing input: next of a definition is not the most specific strictly more general definition",
                                                    "method": m["key"], "installed_next_per_definition": m["next"], "specification": spec[m["key"]]})
    return compared, None


def check_C03(ck):
    n = tier_n(ck, 800, 12000)
    scripts = load_corpus("C03") + load_corpus("dispatch")
    gscripts, stats = gen_dispatch_scripts(ck, n, emphasis="multi")
    scripts += gscripts
    single_update = [(n_, ls) for n_, ls in scripts if sum(1 for l in ls if l == "update") == 1]
    impl_out, model_out, nbad = correspondence(ck, scripts, "C03: next cells after update and next chains followed from calls",
                                               extra_oracle=lambda bad, by_name, io: c03_next_cells(single_update, io)[1])
    k, f = c03_next_cells(single_update, impl_out)
    if f and not ck.violations:
        f[2].update(property="C03", script=f[1])
        ck.violation(verif.write_replay("C03", f[0], f[2]), True)
    src = compare_source(ck, scripts, "base")
    std_evidence(ck, ["C03", "C03src"], scripts, gscripts, stats, impl_out,
                 {"next_chains_followed": count_lines(impl_out, "ran ["), "methods_whose_next_cells_were_compared_with_the_specification": k,
                  "translated_source_of_is_base": src})


def check_C04(ck):
    r = check_dispatch_family(ck, 1000, 15000, "C04: slots, first slots, v-table entries, dispatch data layout; ASan on every read",
                              emphasis="lattice")
    scripts, gscripts, stats, impl_out, model_out, crashes = r
    # the statement of C04 evaluated directly on the implementation's dumps
    checked = 0
    for name, lines in scripts:
        classes, methods = parse_dump(impl_out.get(name, []))
        if not classes:
            continue
        # cov of each method parameter from the script
        vp = {}
        id_to_class = {}
        for c in classes:
            for i in c["ids"]:
                id_to_class[i] = c
        mi = 0
        order = [int(l.split()[1]) for l in impl_out.get(name, []) if l.startswith("method ")]
        decl = {}
        for l in lines:
            t = l.split()
            if t and t[0] == "method":
                decl[int(t[1])] = [int(x) for x in t[3:]]
        cov = {}
        for mi, key in enumerate(order):
            for p, cid in enumerate(decl.get(key, [])):
                if cid in id_to_class:
                    cov[(mi, p)] = id_to_class[cid]["cov"]
        probs = certificate_c04(classes, methods, cov)
        checked += 1
        if probs and not ck.violations:
            path = verif.write_replay(ck.prop, name, {"property": "C04", "kind": "failing input: v-table cells not exclusive / out of range in the implementation's own tables",
                                                       "script": lines, "problems": probs[:10]})
            ck.violation(path, True)
    if crashes and not ck.violations:
        name = crashes[0]
        path = verif.write_replay(ck.prop, name, {"property": "C04", "kind": "failing input: the implementation crashed or a sanitizer fired",
                                                   "script": dict(scripts)[name], "output": impl_out[name][-5:]})
        ck.violation(path, True)
    std_evidence(ck, ["C04"], scripts, gscripts, stats, impl_out, {"dumps_checked_for_exclusive_cells": checked})


def permutations_of(rng, lines, k):
    """k registration orders of the same script (class/method/def lines permuted, defs after methods)"""
    head = [l for l in lines if l.split()[0] in ("policy", "budget", "static")]
    regs = [l for l in lines if l.split()[0] in ("class", "method")]
    defs = [l for l in lines if l.split()[0] == "def"]
    tail = [l for l in lines if l.split()[0] not in ("policy", "budget", "static", "class", "method", "def")]
    out = []
    for _ in range(k):
        r, d = regs[:], defs[:]
        rng.shuffle(r)
        rng.shuffle(d)
        out.append(head + r + d + tail)
    return out


def observables(lines):
    return [l for l in lines if l.startswith(("ran", "raised", "!"))]


def check_C06(ck):
    rng = random.Random(repr((ck.seed, "C06")))
    n = tier_n(ck, 250, 4000)
    base, stats = gen_dispatch_scripts(ck, n, dump=True, emphasis="multi")
    scripts = load_corpus("C06")
    groups = []
    extra = load_corpus("dispatch")
    for (name, lines), st in list(zip(base, stats)) + [(e, None) for e in extra]:
        perms = permutations_of(rng, lines, 4)
        names = []
        for j, p in enumerate(perms):
            scripts.append(("%s-perm%d" % (name, j), p))
            names.append("%s-perm%d" % (name, j))
        groups.append(names)
    impl_out, model_out, nbad = correspondence(ck, scripts, "C06: every registration order agrees with the model")
    differing = 0
    for names in groups:
        obs = [observables(impl_out.get(nm, [])) for nm in names]
        if any(o != obs[0] for o in obs[1:]):
            differing += 1
            if not ck.violations:
                j = [k for k, o in enumerate(obs) if o != obs[0]][0]
                a, b = dict(scripts)[names[0]], dict(scripts)[names[j]]
                i = [k for k, (x, y) in enumerate(zip(obs[0], obs[j])) if x != y]
                path = verif.write_replay("C06", names[0], {"property": "C06", "kind": "failing input: two registration orders of one registry give different call / next results",
                                                             "order_a": a, "order_b": b, "first_difference": [obs[0][i[0]], obs[j][i[0]]] if i else None})
                ck.violation(path, True)
    big = stats * 1
    std_evidence(ck, ["C06"], scripts, scripts[:2], [s for s in stats for _ in range(4)], impl_out,
                 {"registries": len(base), "orders_per_registry": 4, "groups_with_differing_observables": differing})


def check_C08(ck):
    rng = random.Random(repr((ck.seed, "C08")))
    n = tier_n(ck, 250, 4000)
    scripts, stats_all, groups = load_corpus("C08"), [], []
    for i in range(n):
        pol = rng.choice(gen.POLICIES)
        reg = gen.gen_registry(rng)
        while not any(len(p) > 1 for p in reg.parents) and rng.random() < 0.7:
            reg = gen.gen_registry(rng)
        ids = gen.make_ids(rng, len(reg.parents), pol)
        names = []
        state = rng.getstate()
        for style in gen.STYLES:
            r2 = random.Random(repr((ck.seed, i, style)))
            r3 = random.Random(repr((ck.seed, i)))  # the same calls in every presentation
            lines, meta = gen.emit_script(r2, reg, pol, style=style, ids=ids, shuffle=False, callnext=True, call_rng=r3)
            nm = "p%d-%s-%s-%s" % (i, pol, reg.family, style)
            scripts.append((nm, lines))
            names.append(nm)
            st = reg.stats()
            st.update(policy=pol, style=style, calls=meta["calls"])
            stats_all.append(st)
            # the same presentation with the records in a random order (derived classes before bases)
            r2 = random.Random(repr((ck.seed, i, style, "shuffled")))
            r3 = random.Random(repr((ck.seed, i)))
            lines, meta = gen.emit_script(r2, reg, pol, style=style, ids=ids, shuffle=True, callnext=True, call_rng=r3)
            nm = "p%d-%s-%s-%s-shuffled" % (i, pol, reg.family, style)
            scripts.append((nm, lines))
            names.append(nm)
            st = reg.stats()
            st.update(policy=pol, style=style + "-shuffled", calls=meta["calls"])
            stats_all.append(st)
        groups.append(names)
    impl_out, model_out, nbad = correspondence(ck, scripts, "C08: every presentation of the base lists agrees with the model")
    differing = 0
    for names in groups:
        obs = [observables(impl_out.get(nm, [])) for nm in names]
        if any(o != obs[0] for o in obs[1:]):
            differing += 1
            if not ck.violations:
                j = [k for k, o in enumerate(obs) if o != obs[0]][0]
                path = verif.write_replay("C08", names[0], {"property": "C08", "kind": "failing input: two presentations of one inheritance graph dispatch differently",
                                                             "presentation_a": dict(scripts)[names[0]], "presentation_b": dict(scripts)[names[j]]})
                ck.violation(path, True)
    std_evidence(ck, ["C08"], scripts, scripts[:2], stats_all, impl_out,
                 {"graphs": n, "presentations_per_graph": 2 * len(gen.STYLES), "groups_with_differing_observables": differing})


def c17_expectations(scripts, impl_out):
    """per script and method: the flags the specification implies, from the oracle's verdict on every
    class tuple (only for methods whose tuples are all called). Returns first mismatch or None."""
    plain = strip_dump(scripts)
    orc = verif.run_model(verif.inject_rng(plain, impl_out), mode="--oracle")
    compared = 0
    for name, lines in plain:
        o = orc.get(name, [])
        ops = [l for l in lines if l.split()[0] in ("update", "call", "callnext", "callfinal", "vcall", "vnew", "vfinal", "vcopy", "vmove")]
        if len(ops) != len(o):
            continue
        abstract, full = {}, set()
        for l in lines:
            t = l.split()
            if t[0] == "class":
                abstract.setdefault(int(t[2]), t[3] != "0")
            if t[0] == "#full":
                full.add(int(t[1]))
        exp = {}
        for op, res in zip(ops, o):
            t = op.split()
            if t[0] != "call" or int(t[1]) not in full:
                continue
            e = exp.setdefault(int(t[1]), [False, False, False, False])
            conc = not any(abstract.get(int(x), False) for x in t[2:])
            if "status=ni" in res:
                e[0] = True
                e[1] = e[1] or conc
            elif "status=amb" in res:
                e[2] = True
                e[3] = e[3] or conc
        _, methods = parse_dump(impl_out.get(name, []))
        for m in methods:
            if m["key"] in exp and len(m["report"]) == 6:
                compared += 1
                got = [m["report"][2] != 0, m["report"][3] != 0, m["report"][4] != 0, m["report"][5] != 0]
                if got != exp[m["key"]]:
                    return compared, (name, dict(scripts)[name], {
                        "kind": "failing input: the update report disagrees with what the registry implies",
                        "method": m["key"], "flags": ["not_implemented", "concrete_not_implemented", "ambiguous", "concrete_ambiguous"],
                        "reported": got, "implied_by_all_class_tuples": exp[m["key"]]})
    return compared, None


def check_C17(ck):
    n = tier_n(ck, 1000, 15000)
    scripts = load_corpus("C17") + load_corpus("dispatch")
    gscripts, stats = gen_dispatch_scripts(ck, n, emphasis="abstract", callnext=False)
    scripts += gscripts
    scripts += many_definitions_scripts(random.Random(repr((ck.seed, "C17", "many-definitions"))), tier_n(ck, 16, 80))
    state = {"compared": 0}

    def c17_oracle(bad, by_name, impl_out):
        k, f = c17_expectations(scripts, impl_out)
        state["compared"] = k
        return f
    impl_out, model_out, nbad = correspondence(ck, scripts, "C17: per-method and aggregated update report", oracle=False, extra_oracle=c17_oracle)
    k, f = c17_expectations(scripts, impl_out)
    if f and not ck.violations:
        f[2].update(property="C17", script=f[1])
        ck.violation(verif.write_replay("C17", f[0], f[2]), True)
    std_evidence(ck, ["C17"], scripts, gscripts, stats, impl_out,
                 {"reports_compared_with_model": count_lines(impl_out, "report "), "method_reports_compared_with_specification": k})


def check_C02(ck):
    r = check_dispatch_family(ck, 800, 12000, "C02: error status, arity and type ids; later calls after a thrown error")
    scripts, gscripts, stats, impl_out, model_out, crashes = r
    # handler returns -> abort (one child per script)
    rng = random.Random(repr((ck.seed, "C02-abort")))
    ab = []
    for i in range(tier_n(ck, 60, 600)):
        pol = rng.choice(["fast", "checked", "indirect", "backward", "proj"])
        reg = gen.gen_registry(rng)
        lines, meta = gen.emit_script(rng, reg, pol, dump=False, callnext=False)
        k = lines.index("update")
        lines = lines[:k + 1] + ["handler return"] + lines[k + 1:]
        ab.append(("abort%d-%s" % (i, pol), lines))
    io2, mo2, nb2 = correspondence(ck, ab, "C02: a returning handler aborts the program")
    aborted = sum(1 for ls in io2.values() if "!signal 6" in ls)
    # tables installed by decode_dispatch_data instead of update: unresolvable calls must be reported in the same way
    # (status, arity, type ids) - the error pseudo-definitions are numbered by the compiler, emitted by the encoder
    # and indexed again by the decoder
    rng3 = random.Random(repr((ck.seed, "C02-decoded")))
    dec = []
    for i in range(tier_n(ck, 120, 1500)):
        pre, post, reg = gen_tag_script(rng3, pol="gen")
        calls = [l for l in post if l.startswith("call ")]
        dec.append(("decoded%d" % i, pre + ["update", "encode"] + calls + ["echo D", "decode"] + calls))

    def decoded_oracle(bad, by_name, io):
        for name, lines in dec:
            out = verif.visible(io.get(name, []))
            if "@D" not in out:
                continue
            k = out.index("@D")
            before = [l for l in out[:k] if l.startswith(("ran", "raised"))]
            after = [l for l in out[k:] if l.startswith(("ran", "raised"))]
            d_ = [z for z in zip(before, after) if z[0] != z[1] and (z[0].startswith("raised resolution") or z[1].startswith("raised resolution"))]
            if d_:
                return (name, lines, {"kind": "failing input: with the tables installed by decode_dispatch_data an unresolvable call is reported differently from after update",
                                      "first_difference(after update, after decoding)": d_[:1]})
        return None
    io3, mo3, nb3 = correspondence(ck, dec, "C02: error reports with tables installed by decode_dispatch_data", oracle=False, extra_oracle=decoded_oracle)
    f3 = decoded_oracle(None, None, io3)
    if f3 and not any(f_ for _, f_ in ck.violations):
        f3[2].update(property="C02", script=f3[1])
        ck.violation(verif.write_replay("C02", f3[0], f3[2]), True)
    errors_after_decoding = sum(1 for name, _ in dec for l in verif.visible(io3.get(name, []))[(verif.visible(io3.get(name, [])).index("@D") if "@D" in verif.visible(io3.get(name, [])) else 0):] if l.startswith("raised resolution"))
    # compiled programs: the error object built by the real handlers from the declared parameter types
    # (every way of writing a virtual parameter), compared with the specification call by call
    wp = whole_programs(ck, tier_n(ck, 12, 60), policies=("default", "::yorel::yomm2::policy::debug"),
                        shapes=("P", "PV", "PP", "VP", "V", "VV", "NPN", "VNV"))
    wp["calls_that_raise_an_error"] = wp.pop("raised", None)
    std_evidence(ck, ["C02"], scripts + ab, gscripts, stats, impl_out,
                 {"scripts_with_returning_handler": len(ab), "of_which_aborted": aborted, "whole_programs": wp,
                  "scripts_with_decoded_tables": len(dec), "resolution_errors_reported_after_decoding": errors_after_decoding})


# ----------------------------------------------------------------------------------------------------
# C18 static_list

def list_histories(nodes, length):
    """all valid op sequences up to `length` over `nodes` nodes"""
    out = []

    def rec(seq, linked):
        if seq:
            out.append(seq)
        if len(seq) == length:
            return
        for n in range(1, nodes + 1):
            if n in linked:
                rec(seq + [("lremove", n)], [x for x in linked if x != n])
            else:
                rec(seq + [("lpush", n)], linked + [n])
        rec(seq + [("lclear", 0)], [])
    rec([], [])
    return out


def list_script(seq, nodes):
    lines = []
    for op, n in seq:
        lines.append(op if op == "lclear" else "%s %d" % (op, n))
        lines.append("ldump %d" % nodes)
    return lines


def abstract_list(seq):
    cur, states = [], []
    for op, n in seq:
        if op == "lpush":
            cur = cur + [n]
        elif op == "lremove":
            cur = [x for x in cur if x != n]
        else:
            cur = []
        states.append(list(cur))
    return states


def check_C18(ck):
    rng = random.Random(repr((ck.seed, "C18")))
    seqs = list_histories(3, tier_n(ck, 6, 7)) + list_histories(4, tier_n(ck, 5, 6))
    # only maximal histories are needed (every prefix is dumped), keep those of full length plus random long ones
    full = [s for s in seqs if len(s) >= (5 if ck.tier == "quick" else 6)]
    for i in range(tier_n(ck, 300, 5000)):
        nodes, linked, seq = rng.randint(2, 12), [], []
        for _ in range(rng.randint(8, 60)):
            r = rng.random()
            free = [n for n in range(1, nodes + 1) if n not in linked]
            if r < 0.05:
                seq.append(("lclear", 0)); linked = []
            elif (r < 0.55 and free) or not linked:
                n = rng.choice(free) if free else None
                if n is None:
                    continue
                seq.append(("lpush", n)); linked.append(n)
            else:
                # first / middle / last / only
                k = rng.choice([0, len(linked) - 1, rng.randrange(len(linked))])
                seq.append(("lremove", linked[k])); linked.pop(k)
        full.append(seq)
    scripts = load_corpus("C18")
    meta = {}
    for i, seq in enumerate(full):
        nodes = max([n for _, n in seq] + [3])
        name = "l%d" % i
        scripts.append((name, list_script(seq, nodes)))
        meta[name] = seq

    def list_oracle(bad, by_name, impl_out):
        for name, *_ in bad:
            if name not in meta:
                continue
            exp = abstract_list(meta[name])
            got = [l for l in impl_out.get(name, []) if l.startswith("list ")]
            for k, e in enumerate(exp):
                want = "list [%s] size=%d empty=%d" % (",".join(map(str, e)), len(e), 0 if e else 1)
                if k >= len(got) or not got[k].startswith(want + " "):
                    ops = list_script(meta[name][:k + 1], 0)
                    return (name, ops, (name, k, got[k] if k < len(got) else "<crash>", want))
        return None
    impl_out, model_out, nbad = correspondence(ck, scripts, "C18: enumeration, size, emptiness and every link field after every operation",
                                               oracle=False, extra_oracle=list_oracle)
    # the bodies clang parsed from static_list.hpp on this run, executed by Mini.exec (driver --src), against the
    # compiled header: validates the translator and the semantics given to its constructors, and gives the
    # failing history when the proofs about the translated source no longer check
    src_out = verif.run_model(scripts, mode="--src")
    src_bad = verif.compare(scripts, impl_out, src_out)
    if src_bad and not nbad:
        found = list_oracle(src_bad, dict(scripts), impl_out)
        name, i, a, b = src_bad[0][:4]
        payload = {"property": "C18", "kind": "the source of static_list.hpp as translated on this run (Mini.exec) and the compiled header differ",
                   "script": dict(scripts)[name], "first_difference": {"line": i, "implementation": a, "translated_source": b},
                   "seed": ck.seed}
        if found:
            payload["failing_input"] = {"history": found[1], "observed": found[2][2], "expected": found[2][3]}
        ck.violation(verif.write_replay("C18", "src-" + name, payload), bool(found))
    kinds = {"first": 0, "middle": 0, "last": 0, "only": 0}
    for seq in full:
        cur = []
        for op, n in seq:
            if op == "lremove":
                i = cur.index(n)
                kinds["only" if len(cur) == 1 else "first" if i == 0 else "last" if i == len(cur) - 1 else "middle"] += 1
                cur.pop(i)
            elif op == "lpush":
                cur.append(n)
            else:
                cur = []
    lt = lifetime_programs(ck, tier_n(ck, 6, 40))
    # the catalogs of definitions: one function registered as a definition of two methods, and of the same method
    # in several policies (every registration object adds its own record to its own method's catalog)
    pt = policy_template_programs(ck, tier_n(ck, 4, 20))
    ck.coverage = proof_coverage(ck, ["C18", "C18src"], {
        "registration_object_lifetimes": lt, "functions_shared_between_methods_and_policies": pt,
        "translated_source": {"file": "lean/Yomm2/Generated/StaticListSrc.lean (tools/cpp2lean.py, from clang's AST of the header)",
                              "histories_run_on_translated_source": len(scripts), "differences_from_implementation": len(src_bad),
                              "translator_messages": getattr(ck.lean, "notes", [])},
        "evaluations": len(scripts),
        "distinct_nontrivial": len({repr(s) for s in full if any(o == "lremove" for o, _ in s)}),
        "rule": "histories of push / remove / clear over a pool of static nodes: every valid sequence up to the tier's length over 3 and 4 nodes "
                "(exhaustive), plus random histories of 8-60 operations over 2-12 nodes; after every operation the enumeration, size(), empty() "
                "and both link fields of every node are compared with the model; non-trivial = distinct history containing a removal",
        "exhaustive_small_scope": {"nodes3_max_len": tier_n(ck, 6, 7), "nodes4_max_len": tier_n(ck, 5, 6)},
        "removal_kinds": kinds,
        "traces_validated_against_impl": len(scripts),
        "samples": [{"name": n, "script": ls[:30]} for n, ls in scripts[-2:]],
    })
    ck.assumptions = ["registration nodes live in zero-initialised static storage (documented requirement of the library)",
                      "the heap model identifies nodes by number; pointer identity of distinct static objects is assumed",
                      "the meaning of the translated constructs is Mini.exec (lean/Yomm2/MiniCpp.lean): null dereference = fault, "
                      "assignment evaluates its right operand first, a while loop runs on fuel; clang's parse of the header is trusted"]


check_C18.needs_hdyn = True


# ----------------------------------------------------------------------------------------------------
# C05 type-id hash

ID_FAMILIES = ["pointer", "stride", "small", "random64", "highbits", "lowbits"]


def parse_hash(lines):
    """(mult, shift, length, control or None, vptr entries {index: offset}) of the last dump"""
    h = ctl = vp = None
    size = None
    for l in lines:
        m = re.match(r"hash mult=(\d+) shift=(\d+) length=(\d+) min=(\d+) max=(\d+)", l)
        if m:
            h = tuple(int(x) for x in m.groups())
        if l.startswith("control ["):
            ctl = [int(x) for x in l[9:-1].split(",") if x]
        m = re.match(r"vptrs size=(\d+) \[(.*)\]", l)
        if m:
            size = int(m.group(1))
            vp = {int(e.split(":")[0]): int(e.split(":")[1]) for e in m.group(2).split(",") if e}
    return h, ctl, size, vp


def check_C05(ck):
    rng = random.Random(repr((ck.seed, "C05")))
    scripts = load_corpus("C05")
    meta = {}
    # thorough sizes are bounded by memory: the multiplier streams replayed to the model make a script cost about 6 MB
    # in this process (10 000 scripts needed 49 GB); 2 600 scripts stay near 16 GB
    n = tier_n(ck, 350, 1200)
    maxsize = tier_n(ck, 300, 900)
    for i in range(n):
        pol = rng.choice(["fast", "checked", "checked", "indirect", "backward"])
        fam = rng.choice(ID_FAMILIES)
        r = rng.random()
        replace_all = rng.random() < 0.25      # unload everything, load a disjoint small set
        size = rng.randint(1, 4) if replace_all else 0 if r < 0.03 else rng.randint(1, 12) if r < 0.5 else rng.randint(13, 80) if r < 0.9 else rng.randint(81, min(300, maxsize)) if r < 0.985 else rng.randint(min(300, maxsize), maxsize)
        if pol == "backward" and size > 150:
            # a failed search makes the deprecated handler abort; with the full budget the process dies without
            # reporting the multipliers its model needs (the abort note is only kept for budgets <= 2000)
            size = rng.randint(81, 150)
        pool = [x[0] for x in gen.make_ids(rng, size + 40, pol, fam)]
        live = {}
        ever = []
        lines = ["policy " + pol]
        handle = 0
        history = []
        rounds = rng.randint(1, 4)
        exhausted = False
        for rd in range(rounds):
            # grow / shrink
            if rd == 0:
                add = pool[:size]
            elif replace_all:
                for h in sorted(live):
                    lines.append("unclass %d" % h)
                live = {}
                unused = [x for x in pool if x not in ever]
                add = rng.sample(unused, min(len(unused), rng.randint(1, 4)))
            else:
                k = rng.randint(0, max(1, len(live)))
                for h in rng.sample(sorted(live), min(k, len(live))):
                    lines.append("unclass %d" % h)
                    del live[h]
                unused = [x for x in pool if x not in live.values()]
                add = rng.sample(unused, min(len(unused), rng.randint(0, 12)))
            for cid in add:
                handle += 1
                live[handle] = cid
                ever.append(cid)
                lines.append("class %d %d 0 %d" % (handle, cid, cid))
            if rng.random() < 0.25:
                b = rng.choice([0, 1, 2, 3, 5])
                lines.append("budget %d" % b)
            elif rd > 0:
                lines.append("budget 100000")
            lines.append("update")
            lines.append("dump")
            regs = sorted(set(live.values()))
            for cid in rng.sample(regs, min(len(regs), 6)):
                lines.append("echo L%d:1" % cid)
                lines.append("lookup %d" % cid)
            if pol == "checked":
                gone = [x for x in pool if x not in live.values()]
                was = [x for x in ever if x not in live.values()]
                cands = was[-8:] + [rng.choice([rng.getrandbits(64), rng.choice(gone) if gone else 1, rng.randrange(1, 1 << 20), 0]) for _ in range(3)]
                for x in cands:
                    if x not in live.values() and x != 2 ** 64 - 1:
                        lines.append("echo L%d:0" % x)
                        lines.append("lookup %d" % x)
            history.append(regs)
        name = "h%d-%s-%s-%d" % (i, pol, fam, size)
        scripts.append((name, lines))
        meta[name] = (pol, fam, size, history)
    # small-set replacement battery: unload everything, load a disjoint set of about the same size
    # (the hash search then tends to succeed at its first attempt, with the previous tables around)
    for i in range(tier_n(ck, 160, 800)):
        fam = ID_FAMILIES[i % len(ID_FAMILIES)]
        a, b = rng.choice([(1, 1), (2, 2), (3, 3), (2, 3), (3, 2), (4, 4), (5, 6), (1, 2)])
        pool = [x[0] for x in gen.make_ids(rng, a + b + 2, "checked", fam)]
        s1, s2 = pool[:a], pool[a:a + b]
        lines = ["policy checked"]
        for h, cid in enumerate(s1):
            lines.append("class %d %d 0 %d" % (h + 1, cid, cid))
        lines += ["update", "dump"]
        for h in range(len(s1)):
            lines.append("unclass %d" % (h + 1))
        for h, cid in enumerate(s2):
            lines.append("class %d %d 0 %d" % (100 + h, cid, cid))
        lines += ["update", "dump"]
        for cid in s2:
            lines += ["echo L%d:1" % cid, "lookup %d" % cid]
        for cid in s1:
            lines += ["echo L%d:0" % cid, "lookup %d" % cid]
        name = "r%d-checked-%s-%d-%d" % (i, fam, a, b)
        scripts.append((name, lines))
        meta[name] = ("checked", fam, a, [sorted(s1), sorted(s2)])
    # classes with several type ids (one class seen under different ids, e.g. one type_info per shared object): the
    # search hashes every id of every class, and all of them must end up in buckets of their own
    for i in range(tier_n(ck, 150, 600)):
        ncls = rng.randint(2, 30)
        groups = gen.make_ids(rng, ncls, "proj")
        # more aliases than make_ids draws by default, on some classes
        groups = [g + ([8 * (g[0] // 8) + a for a in range(8) if 8 * (g[0] // 8) + a not in g][:rng.randint(0, 3)] if rng.random() < 0.4 else []) for g in groups]
        lines = ["policy proj"]
        h = 0
        for g in groups:
            for cid in g:
                h += 1
                lines.append("class %d %d 0 %d" % (h, cid, cid))
        if rng.random() < 0.2:
            lines.append("budget %d" % rng.choice([1, 2, 3, 5]))
        lines += ["update", "dump"]
        allids = sorted(x for g in groups for x in g)
        for cid in allids:
            lines += ["echo L%d:1" % cid, "lookup %d" % cid]
        name = "m%d-proj-aliases-%d" % (i, len(allids))
        scripts.append((name, lines))
        meta[name] = ("proj", "aliases", len(allids), [allids])
    stats5 = {"installs": 0, "failures": 0, "unknown_rejected": 0, "sizes": {}}

    def evaluate(impl_out, report):
        """the statement of C05 evaluated on the implementation's own values; returns first failing (name, lines, payload)"""
        first = None
        for name, lines in scripts:
            out = impl_out.get(name, [])
            if name not in meta:
                continue
            pol, fam, size, history = meta[name]
            if report:
                b_ = str(min(size, 1000) // 50 * 50)
                stats5["sizes"][b_] = stats5["sizes"].get(b_, 0) + 1
                stats5["failures"] += sum(1 for l in out if l.startswith("update raised hash_search"))
                stats5["unknown_rejected"] += sum(1 for l in out if l.startswith("raised unknown_class"))
            for k, l in enumerate(out):
                m = re.match(r"@L(\d+):([01])", l)
                if m and k + 1 < len(out):
                    res = out[k + 1]
                    if res.startswith("skipped"):
                        continue
                    ok = res.startswith("vptr ") if m.group(2) == "1" else res == "raised unknown_class " + m.group(1)
                    if not ok and first is None:
                        first = (name, lines, {"kind": "failing input: " + (
                            "a registered id is not resolved" if m.group(2) == "1" else "the checked hash accepted an id that is not registered"),
                            "lookup": int(m.group(1)), "implementation": res})
            chunks, cur = [], None
            for l in out:
                if l.startswith("update"):
                    cur = [l]
                    chunks.append(cur)
                elif cur is not None:
                    cur.append(l)
            for regs, chunk_ in zip(history, chunks):
                mu = re.match(r"update raised unknown_class (\d+)", chunk_[0])
                if mu and int(mu.group(1)) in regs and first is None:
                    # publish_vptrs looks every registered id up again: a hash that sends two of them to one bucket
                    # makes the checked lookup reject one
                    first = (name, lines, {"kind": "failing input: update reports a registered class as unknown (the installed hash is not perfect on the registered ids)",
                                           "id": int(mu.group(1)), "implementation": chunk_[0]})
                if chunk_[0] != "update ok":
                    continue
                h, ctl, vsize, vp = parse_hash(chunk_)
                if not h:
                    continue
                if report:
                    stats5["installs"] += 1
                mult, shift, length, mn, mx = h
                idx = {cid: ((mult * cid) & (2 ** 64 - 1)) >> shift for cid in regs}
                probs = []
                if len(set(idx.values())) != len(idx):
                    probs.append("two registered ids share an index")
                if any(v >= length for v in idx.values()) or (vsize is not None and vsize != length):
                    probs.append("index outside the v-table pointer vector")
                if ctl is not None and any(ctl[v] != cid for cid, v in idx.items() if v < len(ctl)):
                    probs.append("control table does not hold the id at its index")
                if vp is not None and any(v not in vp for v in idx.values()):
                    probs.append("no v-table pointer stored at a registered id's index")
                if probs and first is None:
                    first = (name, lines, {"kind": "failing input: installed hash is not perfect on the registered ids", "problems": probs, "hash": h})
        return first

    impl_out, model_out, nbad = correspondence(ck, scripts, "C05: hash multiplier, shift, length, min/max, control table, v-table pointer vector, lookups",
                                               oracle=False, extra_oracle=lambda bad, by_name, io: evaluate(io, False))
    first = evaluate(impl_out, True)
    if first and not ck.violations:
        name, lines, payload = first
        payload.update(property="C05", script=lines, seed=ck.seed)
        ck.violation(verif.write_replay("C05", name, payload), True)
    # boundary lookups: from the hash parameters the implementation installed at the first update of a checked
    # script, unregistered ids are constructed whose index is exactly the installed length, one beyond, the last
    # bucket and the largest index; the script is run again (a fresh process draws the same multipliers) with these
    # lookups appended: every one must be reported as an unknown class, and ASan watches the control table
    brng = random.Random(repr((ck.seed, "C05-boundary")))
    boundary = []
    for name, lines in scripts:
        if len(boundary) >= tier_n(ck, 80, 600) or name not in meta or meta[name][0] not in ("checked", "proj") or "update" not in lines:
            continue
        out = impl_out.get(name, [])
        k = lines.index("update")
        first = []
        seen = False
        for l in out:
            if l.startswith("update"):
                if seen:
                    break
                seen = True
                if l != "update ok":
                    break
            elif seen:
                first.append(l)
        h, ctl, vsize, vp = parse_hash(first)
        if not h or ctl is None:
            continue
        mult, shift, length, mn, mx = h
        regs = set(meta[name][3][0])
        buckets = 1 << (64 - shift) if shift < 64 else 0
        wanted = [t for t in (length, length + 1, length - 1, buckets - 1) if 0 <= t < buckets]
        crafted = []
        for t in wanted:
            for _ in range(20000):
                x = brng.getrandbits(64)
                if ((mult * x) & (2 ** 64 - 1)) >> shift == t and x not in regs and x != 2 ** 64 - 1:
                    crafted.append((t, x))
                    break
        if crafted:
            pre = [l for l in lines[:k + 1]]
            extra = []
            for t, x in crafted:
                extra += ["echo L%d:0" % x, "lookup %d" % x]
            boundary.append(("b-" + name, pre + ["dump"] + extra, {"length": length, "buckets": buckets, "indices": [t for t, _ in crafted]}))
    if boundary:
        bscripts = [(n_, ls) for n_, ls, _ in boundary]
        bout, _ = verif.run_impl(ck.exe, bscripts)
        for (n_, ls, info) in boundary:
            o = verif.visible(bout.get(n_, []))
            for kk, l in enumerate(o):
                m = re.match(r"@L(\d+):0", l)
                if m and kk + 1 < len(o) and not any(f_ for _, f_ in ck.violations):
                    res = o[kk + 1]
                    if res.startswith("skipped"):
                        continue
                    if res != "raised unknown_class " + m.group(1):
                        ck.violation(verif.write_replay("C05", n_, {
                            "property": "C05", "kind": "failing input: the checked hash does not report an unregistered id whose index lies at the edge of the installed table",
                            "lookup": int(m.group(1)), "implementation": res, "hash": info, "script": ls, "seed": ck.seed}), True)
    # the bodies of hash_type_id (plain and checked) as translated from the header on this run (HashL.exec, driver
    # --src) answer every lookup of the battery; compared with the compiled functions
    src_scripts = scripts[:tier_n(ck, 700, 1500)]       # a bounded slice: the multiplier streams make these scripts large
    src_out = verif.run_model(verif.inject_rng(src_scripts, impl_out), mode="--src")
    src_bad = verif.compare(src_scripts, impl_out, src_out)
    lookups = sum(1 for ls in src_out.values() for l in ls if l.startswith(("vptr ", "raised unknown_class")))
    if src_bad and not nbad and not any(f_ for _, f_ in ck.violations):
        name, i, a, b = src_bad[0][:4]
        ck.violation(verif.write_replay("C05", "src-" + name, {
            "property": "C05", "kind": "the body of hash_type_id as translated from the header on this run (HashL.exec) and the compiled function answer a lookup differently",
            "script": dict(scripts)[name], "first_difference": {"line": i, "implementation": a, "translated_source": b}, "seed": ck.seed}), False)
    installs, failures, unknown_rejected, sizes = stats5["installs"], stats5["failures"], stats5["unknown_rejected"], stats5["sizes"]
    ck.coverage = proof_coverage(ck, ["C05", "C05src"], {
        "evaluations": len(scripts),
        "distinct_nontrivial": len({repr(meta[n_][3]) for n_ in meta if len(meta[n_][3][0]) >= 2}),
        "rule": "id sets by family (clustered pointers, strides, small integers, random 64-bit, high-bits-only, low-bits-only), sizes 0..%d, 1-4 updates "
                "with classes removed and added in between, attempt budget lowered on a quarter of the updates; after each update the hash statics, "
                "control table and v-table pointer vector are compared with the model, registered ids are looked up, unregistered ids are looked up "
                "under the checked policy; non-trivial = distinct history whose first set has >= 2 ids" % maxsize,
        "translated_source_of_hash_type_id": {"file": "lean/Yomm2/Generated/HashSrc.lean (tools/cpp2lean.py)", "lookups_answered_by_the_translated_source": lookups,
                                              "differences_from_compiled_functions": len(src_bad), "translator_messages": getattr(ck.lean, "notes", [])},
        "boundary_lookups": {"scripts": len(boundary), "ids_crafted_at_the_edge_of_the_table": sum(len(b[2]["indices"]) for b in boundary)},
        "hash_installs_checked_perfect": installs,
        "search_failures_reported": failures,
        "unknown_ids_rejected": unknown_rejected,
        "size_histogram": sizes,
        "traces_validated_against_impl": len(scripts),
        "samples": [{"name": n_, "script": ls[:25]} for n_, ls in scripts[:2]],
    })
    ck.assumptions = ["the multiplier stream drawn by the implementation is an input of the model (theorems quantify over every stream)",
                      "type id 2^64-1 (yomm2::invalid_type) is reserved by the library and excluded"]


# ----------------------------------------------------------------------------------------------------
# C15 checked policies, C09 virtual_ptr, C07 histories, C10 flavours, C14 isolation

CHECKED = ["checked", "proj", "deferred", "checkedB"]
P_SHAPES = ["P", "PV", "VPNV", "PP"]


def registry_lines(rng, reg, pol, ids, style="complete", shuffle=True):
    lines, _ = gen.emit_script(rng, reg, pol, style=style, ids=ids, shuffle=shuffle, dump=False, callnext=False, calls="none", max_calls=0)
    return [l for l in lines if l.split()[0] in ("class", "method", "def")]


def check_C15(ck):
    rng = random.Random(repr((ck.seed, "C15")))
    scripts, expect = load_corpus("C15"), {}
    n = tier_n(ck, 300, 5000)
    kinds = {}
    for i in range(n):
        pol = rng.choice(["checked", "checked", "deferred", "checkedB"])
        reg = gen.gen_registry(rng, n_classes=rng.randint(3, 8), shapes=["V", "P", "VV", "PV", "VNV", "VPNV", "PP", "VVV"])
        if not reg.methods:
            continue
        n_c = len(reg.parents)
        ids = gen.make_ids(rng, n_c + 1, pol)
        ghost = ids[n_c][0]          # an id that is never registered
        kind = rng.choice(["base", "base2", "method", "def", "call", "call", "vnew", "exact", "final", "history", "history"])
        body = registry_lines(rng, reg, pol, ids[:n_c])
        lines = ["policy " + pol]
        exp = []   # (marker, expected line)
        desc = gen.descendants(reg.parents)
        if kind == "base":
            k = rng.randrange(len(body))
            cl = [j for j, l in enumerate(body) if l.startswith("class")]
            j = rng.choice(cl)
            body[j] = body[j] + " %d" % ghost
            lines += body + ["echo U", "update"]
            exp.append(("U", "update raised unknown_class %d" % ghost))
        elif kind == "base2":
            # the unregistered base is listed by a further record of a class that another record already gave a
            # proper base (classes are routinely registered several times, with different lists)
            cl = [j for j, l in enumerate(body) if l.startswith("class") and len(l.split()) > 5]
            if not cl:
                continue
            j = rng.choice(cl)
            cid = body[j].split()[2]
            extra = "class 950 %s 0 %s %d" % (cid, cid, ghost)
            pos = rng.choice([j + 1, len(body), rng.randint(j + 1, len(body))]) if rng.random() < 0.8 else rng.randint(0, j)
            body.insert(pos, extra)
            lines += body + ["echo U", "update"]
            exp.append(("U", "update raised unknown_class %d" % ghost))
        elif kind in ("method", "def"):
            cand = [j for j, l in enumerate(body) if l.startswith(kind)]
            if not cand:
                continue
            j = rng.choice(cand)
            t = body[j].split()
            first_arg = 3
            pos = rng.randrange(first_arg, len(t))
            t[pos] = str(ghost)
            body[j] = " ".join(t)
            lines += body + ["echo U", "update"]
            exp.append(("U", "update raised unknown_class %d" % ghost))
        elif kind == "history":
            # a class registered for one update and gone at the next: unknown with respect to the current
            # tables on every route, including virtual_ptr construction from an object of exactly that class
            if ghost == 0:
                continue
            m = rng.choice(reg.methods)
            par = rng.choice(desc[m["vp"][0]])
            if rng.random() < 0.6:
                lines.append("static %d" % ghost)
            lines += body + ["class 900 %d 0 %d %d" % (ghost, ghost, ids[par][0]), "update"]
            args = [ids[rng.choice(desc[v])][0] for v in m["vp"]]
            args[0] = ghost
            lines += ["echo A", "vnew v %d" % ghost]
            exp.append(("A", "vptr ok"))
            lines += ["unclass 900", "update"]
            lines += ["echo H", "vnew w %d" % ghost]
            exp.append(("H", "raised unknown_class %d" % ghost))
            lines += ["echo I", "call %d %s" % (m["key"], " ".join(map(str, args)))]
            exp.append(("I", "raised unknown_class %d" % ghost))
        else:
            m = rng.choice(reg.methods)
            static = None
            if kind in ("exact", "final"):
                static = ghost if kind == "exact" else ids[rng.choice(desc[m["vp"][0]])][0]
                if static == 0:
                    continue        # "static 0" means no static class in the harness and in the model
                lines.append("static %d" % static)
            lines += body + ["update"]
            ar = gen.arity(m["shape"])
            if kind == "call":
                for pos in range(ar):
                    args = [ids[rng.choice(desc[v])][0] for v in m["vp"]]
                    args[pos] = ghost
                    tag = "C%d" % pos
                    lines += ["echo " + tag, "call %d %s" % (m["key"], " ".join(map(str, args)))]
                    # the first unregistered virtual argument in order is reported
                    exp.append((tag, "raised unknown_class %d" % ghost))
            elif kind == "vnew":
                lines += ["echo N", "vnew v %d" % ghost]
                exp.append(("N", "raised unknown_class %d" % ghost))
            elif kind == "exact":
                lines += ["echo X", "vnew v %d" % ghost]
                exp.append(("X", "raised unknown_class %d" % ghost))
            else:
                other = [ids[c][0] for c in range(n_c) if ids[c][0] != static]
                for k_, o in enumerate(other[:3]):
                    lines += ["echo F%d" % k_, "vfinal v %d" % o]
                    exp.append(("F%d" % k_, "raised method_table %d" % o))
                lines += ["echo G", "vfinal w %d" % static]
                exp.append(("G", "vptr ok"))
        kinds[kind] = kinds.get(kind, 0) + 1
        name = "u%d-%s-%s" % (i, pol, kind)
        scripts.append((name, lines))
        expect[name] = exp

    def c15_oracle(bad, by_name, impl_out):
        for name, lines in scripts:
            if name not in expect:
                continue
            out = verif.visible(impl_out.get(name, []))
            ran_before = False
            for tag, want in expect[name]:
                got = None
                for k, l in enumerate(out):
                    if l == "@" + tag:
                        got = out[k + 1] if k + 1 < len(out) else "<crash>"
                if got != want:
                    return (name, lines, {"kind": "failing input: use of an unregistered class is not diagnosed as specified",
                                          "expected": want, "implementation": got})
        return None
    impl_out, model_out, nbad = correspondence(ck, scripts, "C15: unknown-class and method-table errors on every route", oracle=False, extra_oracle=c15_oracle)
    f = c15_oracle(None, None, impl_out)
    if f and not ck.violations:
        f[2].update(property="C15", script=f[1])
        ck.violation(verif.write_replay("C15", f[0], f[2]), True)
    ck.coverage = proof_coverage(ck, ["C15"], {
        "evaluations": len(scripts), "distinct_nontrivial": len({repr(l) for _, l in scripts}),
        "rule": "registries under checked policies with one id never registered, used at one place: listed base / method parameter / definition "
                "parameter (update must raise unknown_class with that id), dynamic class of each virtual argument in turn, virtual_ptr from a base "
                "reference, virtual_ptr of exact static type, final with another dynamic type (method_table error); every script is non-trivial "
                "(it contains at least one use of the unregistered id)",
        "by_place": kinds, "traces_validated_against_impl": len(scripts),
        "samples": [{"name": n_, "script": ls} for n_, ls in scripts[:2]],
    })
    ck.assumptions = ["virtual_ptr of exact static type is exercised on the universal object type of H-dyn, whose static id is set by the script",
                      "id 2^64-1 is reserved"]


def pointer_route_programs(ck, shapes=("single", "second", "virtual")):
    """the construction routes of virtual_ptr / virtual_shared_ptr on real classes (generated argument-passing
    programs): from a base pointer, from a pointer of exactly the object's class, const pointees, copies, conversions,
    final, make_virtual_shared; get / * / ->. Only the lines about these routes are compared here (C11 compares all)."""
    import hprog
    pol = "default"
    programs = [("routes-%s" % s_, hprog.prog_args(s_, pol)) for s_ in shapes]
    scripts = [("routes-%s" % s_, ["thunk-expect " + s_]) for s_ in shapes]
    res = hprog.build_and_run(programs, jobs=16)
    model = verif.run_model(scripts)
    keep = ("arg kind=vsptr", "arg kind=cvsptr", "arg kind=vptr", "arg kind=make_virtual_shared", "get kind=", "own kind=vsptr", "own kind=cvsptr")
    compared = 0
    for name, _ in scripts:
        rc, so, se = res[name]
        got = [l for l in so.splitlines() if l.startswith(keep)]
        want = [l for l in model.get(name, []) if l.startswith(keep)]
        compared += len(got)
        if (rc != 0 or got != want) and not any(f_ for _, f_ in ck.violations):
            diff = [x for x in zip(got, want) if x[0] != x[1]][:3]
            found = rc is not None and (rc != 0 or bool(diff))
            ck.violation(verif.write_replay("C09", name, {
                "property": "C09", "kind": ("failing input: a virtual_ptr / virtual_shared_ptr made by one of the construction routes does not dispatch like a plain reference, "
                                            "or does not give back the object (or the program crashed inside such a call)" if found else "the generated program does not compile"),
                "differences(program, required)": diff, "lines_before_the_end": so.splitlines()[-3:], "missing_lines": want[len(got):len(got) + 3],
                "rc": rc, "stderr": (se or "")[-1200:], "program": "tools/hprog.py prog_args(%r, %r)" % (name.split("-", 1)[1], pol)}), found)
    return {"programs": len(programs), "route_lines_compared": compared}


def check_C09(ck):
    rng = random.Random(repr((ck.seed, "C09")))
    scripts, pairs = load_corpus("C09"), {}
    n = tier_n(ck, 300, 5000)
    routes = {}
    for i in range(n):
        pol = rng.choice(["fast", "checked", "plain", "map", "indirect", "indmix", "proj", "backward"])
        reg = gen.gen_registry(rng, n_classes=rng.randint(2, 8), shapes=P_SHAPES, n_methods=rng.randint(1, 3))
        if not reg.methods:
            continue
        n_c = len(reg.parents)
        ids = gen.make_ids(rng, n_c, pol)
        desc = gen.descendants(reg.parents)
        static_c = rng.randrange(n_c)
        if ids[static_c][0] == 0:
            continue        # "static 0" means no static class
        lines = ["policy " + pol, "static %d" % ids[static_c][0]]
        lines += registry_lines(rng, reg, pol, ids, style=rng.choice(gen.STYLES))
        lines += ["update"]
        nvar = 0
        ps = []

        def make_var(c):
            nonlocal nvar
            nvar += 1
            v = "v%d" % nvar
            cid = ids[c][0]
            if c == static_c and rng.random() < 0.5:
                route = "final"
                lines.append("vfinal %s %d" % (v, cid))
            else:
                route = "exact" if c == static_c else "base-ref"
                lines.append("vnew %s %d" % (v, cid))
            r2 = rng.random()
            if r2 < 0.25:
                nvar += 1
                w = "v%d" % nvar
                lines.append("vcopy %s %s" % (w, v))
                v, route = w, route + "+copy"
            elif r2 < 0.4:
                nvar += 1
                w = "v%d" % nvar
                lines.append("vmove %s %s" % (w, v))
                v, route = w, route + "+move"
            routes[route] = routes.get(route, 0) + 1
            return v

        def sweep(tag, keep=None):
            made = keep or {}
            for m in reg.methods:
                for _ in range(4):
                    t = [rng.choice(desc[v]) for v in m["vp"]]
                    kinds = [k for k in m["shape"] if k != "N"]
                    plain, viav = [], []
                    for k, c in zip(kinds, t):
                        plain.append(str(ids[c][0]))
                        if k == "P":
                            if c not in made:
                                made[c] = make_var(c)
                            viav.append("$" + made[c])
                        else:
                            viav.append(str(ids[c][0]))
                    a, b = "%s-%d" % (tag, len(ps)), None
                    lines.append("echo A" + a)
                    lines.append("call %d %s" % (m["key"], " ".join(plain)))
                    lines.append("echo B" + a)
                    lines.append("vcall %d %s" % (m["key"], " ".join(viav)))
                    ps.append(a)
            return made
        made = sweep("s0")
        if rng.random() < 0.6:
            # a later update: add a class and definitions; indirect pointers made before stay valid
            parent = rng.randrange(n_c)
            new_id = max(x for l in ids for x in l) + 16
            lines.append("class 900 %d 0 %d %d" % (new_id, new_id, ids[parent][0]))
            for m in reg.methods[:1]:
                lines.append("def %d %d %s" % (m["key"], 9000 + m["key"], " ".join(str(ids[c][0]) for c in m["vp"])))
                m["defs"].append((9000 + m["key"], list(m["vp"])))
            lines.append("update")
            sweep("s1", keep=made if pol in ("indirect", "indmix") else None)
        name = "v%d-%s" % (i, pol)
        scripts.append((name, lines))
        pairs[name] = ps

    def c09_oracle(bad, by_name, impl_out):
        for name, lines in scripts:
            out = verif.visible(impl_out.get(name, []))
            seg = verif.segments_str(out)
            for a in pairs.get(name, []):
                x, y = seg.get("A" + a), seg.get("B" + a)
                if x is None or y is None:
                    continue
                if x[:1] != y[:1]:
                    return (name, lines, {"kind": "failing input: a call through virtual_ptr differs from the same call through a reference",
                                          "through_reference": x[:1], "through_virtual_ptr": y[:1], "marker": a})
        return None
    impl_out, model_out, nbad = correspondence(ck, scripts, "C09: virtual_ptr construction routes, calls through them, updates in between", oracle=True, extra_oracle=c09_oracle)
    f = c09_oracle(None, None, impl_out)
    if f and not ck.violations:
        f[2].update(property="C09", script=f[1])
        ck.violation(verif.write_replay("C09", f[0], f[2]), True)
    rp = pointer_route_programs(ck)
    ck.coverage = proof_coverage(ck, ["C09"], {
        "construction_routes_on_real_classes": rp,
        "evaluations": len(scripts), "distinct_nontrivial": len({repr(l) for _, l in scripts}),
        "rule": "registries with virtual_ptr parameters (shapes P, PV, VPNV, PP) under 8 policies; virtual_ptrs made from a base reference, from the exact "
                "static type, with final, then copied or moved; every call is made twice, through references and through the virtual_ptrs, and must agree; "
                "60% of scripts run a second update that adds a class and a definition, after which indirect-policy pointers made earlier are used again",
        "construction_routes": routes, "call_pairs": sum(len(v) for v in pairs.values()),
        "traces_validated_against_impl": len(scripts),
        "samples": [{"name": n_, "script": ls[:40]} for n_, ls in scripts[:1]],
    })
    ck.assumptions = ["smart-pointer flavours (virtual_shared_ptr, make_virtual_shared) and conversions between virtual_ptr<Base>/virtual_ptr<Derived> are "
                      "template glue over the same two fields; they are exercised by the H-prog programs, not by this check",
                      "a virtual_ptr of a direct-vptr policy is used only until the next update (as the property states)"]


def history_script(rng, pol, length, shapes=None):
    """a load / unload history; returns lines and the list of (update marker, registry snapshot lines)"""
    n_c = rng.randint(3, 8)
    reg = gen.gen_registry(rng, n_classes=n_c, shapes=shapes, n_methods=rng.randint(1, 4))
    ids = gen.make_ids(rng, n_c, pol)
    desc = gen.descendants(reg.parents)
    anc = gen.ancestors(reg.parents)
    lines = ["policy " + pol]
    live_c, live_m, live_d = {}, {}, {}
    handle = 0
    snaps = []

    def class_line(c):
        nonlocal handle
        handle += 1
        listed = [c] + sorted(anc[c]) if rng.random() < 0.5 else [c] + list(reg.parents[c])
        return handle, "class %d %d %d %s" % (handle, ids[c][0], 1 if reg.abstract[c] else 0, " ".join(str(ids[b][0]) for b in listed))

    def sweep():
        out = []
        for k, m in live_m.items():
            doms = [desc[v] for v in m["vp"]]
            for _ in range(5):
                t = [rng.choice(d) for d in doms]
                if all(c in live_c.values() for c in t):
                    # a third of the calls also follow next from inside the definition that runs: next is recomputed
                    # by every update (a definition loaded later may land between a definition and its old next)
                    out.append("%s %d %s" % ("callnext" if rng.random() < 0.35 else "call", k, " ".join(str(ids[c][0]) for c in t)))
        return out
    for step_ in range(length):
        r = rng.random()
        if r < 0.30:
            c = rng.randrange(n_c)
            h, l = class_line(c)
            live_c[h] = c
            lines.append(l)
        elif r < 0.40 and live_c:
            h = rng.choice(sorted(live_c))
            del live_c[h]
            lines.append("unclass %d" % h)
        elif r < 0.52:
            cand = [m for m in reg.methods if m["key"] not in live_m]
            if cand:
                m = rng.choice(cand)
                live_m[m["key"]] = m
                live_d[m["key"]] = []
                lines.append("method %d %s %s" % (m["key"], m["shape"], " ".join(str(ids[c][0]) for c in m["vp"])))
        elif r < 0.57 and live_m:
            k = rng.choice(sorted(live_m))
            del live_m[k]
            del live_d[k]
            lines.append("unmethod %d" % k)
        elif r < 0.75 and live_m:
            k = rng.choice(sorted(live_m))
            m = live_m[k]
            if len(live_d[k]) < 7:
                did = 1000 * (k + 1) + step_
                vp = [rng.choice(desc[v]) for v in m["vp"]]
                live_d[k].append(did)
                lines.append("def %d %d %s" % (k, did, " ".join(str(ids[c][0]) for c in vp)))
        elif r < 0.83 and any(live_d.values()):
            k = rng.choice([k for k, v in live_d.items() if v])
            did = rng.choice(live_d[k])
            live_d[k].remove(did)
            lines.append("undef %d %d" % (k, did))
        else:
            lines.append("update")
            lines.append("dump")
            lines += sweep()
            if rng.random() < 0.3:
                lines.append("update")     # again, with no change
                lines.append("dump")
    lines.append("update")
    lines.append("dump")
    lines += sweep()
    return lines


def fresh_equivalent(lines):
    """the script a fresh process would run: the registrations alive before the last update, in catalog
    order (a re-registration goes to the back), then the final update and calls"""
    k = max(i for i, l in enumerate(lines) if l == "update")
    head, tail = lines[:k], lines[k:]
    classes, methods, defs = [], [], {}
    for l in head:
        t = l.split()
        if t[0] == "class":
            classes.append((t[1], l))
        elif t[0] == "unclass":
            classes = [c for c in classes if c[0] != t[1]]
        elif t[0] == "method":
            methods.append((t[1], l))
            defs[t[1]] = []
        elif t[0] == "unmethod":
            methods = [m for m in methods if m[0] != t[1]]
            defs.pop(t[1], None)
        elif t[0] == "def" and t[1] in defs:
            defs[t[1]].append((t[2], l))
        elif t[0] == "undef" and t[1] in defs:
            defs[t[1]] = [d for d in defs[t[1]] if d[0] != t[2]]
    out = [lines[0]] + [l for _, l in classes] + [l for _, l in methods]
    for mk, _ in methods:
        out += [l for _, l in defs.get(mk, [])]
    return out + [l for l in tail if l != "dump"]


def lifetime_programs(ck, n):
    """generated programs whose class registration objects (the real `use_classes` templates, in zero-initialised
    static storage) are constructed and destroyed along random histories, several of them registering the same
    class, some with identical lists; at each checkpoint update, the catalog and every call are compared with
    the specification oracle given the registrations alive at that point. Returns the evidence entry."""
    import hprog
    rng = random.Random(repr((ck.seed, ck.prop, "lifetimes")))
    progs, scripts, cats, meta = [], [], {}, []
    for i in range(n):
        reg = gen.gen_registry(rng, n_classes=rng.randint(3, 7), shapes=["V", "VV", "VNV", "NV"], abstract_p=0.15)
        while not reg.methods:
            reg = gen.gen_registry(rng, n_classes=rng.randint(3, 7), shapes=["V", "VV", "VNV", "NV"], abstract_p=0.15)
        src, sc, cat = hprog.prog_lifetimes(reg, rng, checkpoints=rng.randint(3, 5))
        name = "lt%d-%s" % (i, reg.family)
        progs.append((name, src))
        scripts.append((name, ["policy checked"] + sc))
        cats[name] = cat
        meta.append({"program": name, "classes": len(reg.parents), "registration_objects": src.count("using U"),
                     "constructions": src.count("::make();"), "destructions": src.count("::kill();"), "checkpoints": len(cat)})
    res = hprog.build_and_run(progs, jobs=16)
    orc = verif.run_model(scripts, mode="--oracle")
    calls = 0
    for (name, src), (_, sc) in zip(progs, scripts):
        rc, so, se = res[name]
        got = [l for l in so.splitlines() if not l.startswith("catalog")]
        gcat = [l for l in so.splitlines() if l.startswith("catalog")]
        want = orc.get(name, [])
        calls += len(got)
        if any(f_ for _, f_ in ck.violations):
            continue
        if rc != 0 or got != want or gcat != cats[name]:
            d_ = [(k_, a_, b_) for k_, (a_, b_) in enumerate(zip(got, want)) if a_ != b_][:3]
            dc = [(k_, a_, b_) for k_, (a_, b_) in enumerate(zip(gcat, cats[name])) if a_ != b_][:2]
            found = bool(d_) or bool(dc) or (rc is not None and rc != 0)
            ck.violation(verif.write_replay(ck.prop, name, {
                "property": ck.prop,
                "kind": ("failing input: after this history of constructing and destroying class registration objects the program does not behave like a "
                         "process holding the registrations that are alive" if found else "the generated program does not compile"),
                "first_differences(line, program, specification)": d_, "catalog_differences(checkpoint, program, live registrations)": dc,
                "history": [l.strip() for l in src.splitlines() if "::make();" in l or "::kill();" in l or l.strip() == "checkpoint();"],
                "registration_objects": [l for l in src.splitlines() if l.startswith("using U")],
                "rc": rc, "stderr": (se or "")[-1500:], "oracle_script": sc[:80], "program": "tools/hprog.py prog_lifetimes"}), found)
    return {"programs": len(progs), "lines_compared": calls, "detail": meta[:6]}


def check_C07(ck):
    rng = random.Random(repr((ck.seed, "C07")))
    scripts = load_corpus("C07")
    n = tier_n(ck, 300, 5000)
    fresh = {}
    for i in range(n):
        pol = rng.choice(["fast", "checked", "plain", "map", "indirect", "proj", "deferred", "deferred", "backward"])
        lines = history_script(rng, pol, rng.randint(10, tier_n(ck, 40, 200)))
        name = "h%d-%s" % (i, pol)
        scripts.append((name, lines))
        scripts.append((name + "-fresh", fresh_equivalent(lines)))
        fresh[name] = name + "-fresh"

    def c07_oracle(bad, by_name, impl_out):
        for name, fname in fresh.items():
            a = verif.visible(impl_out.get(name, []))
            b = verif.visible(impl_out.get(fname, []))
            # observables after the last update
            def tail(o):
                k = max([i for i, l in enumerate(o) if l.startswith("update")] or [0])
                return [re.sub(r"(update raised unknown_class) \d+", r"\1", l) for l in o[k:] if l.startswith(("update", "ran", "raised", "!", "skipped"))]
            died_a, died_b = any(l.startswith("!") for l in a), any(l.startswith("!") for l in b)
            if (died_a and died_b) or ("!signal 6" in a and name.endswith("backward")):
                continue     # the deprecated handler aborts on an update error (e.g. a class unloaded while still referenced)
            if tail(a) != tail(b):
                return (name, dict(scripts)[name], {"kind": "failing input: after this history the latest update does not behave like a fresh process with the same registrations",
                                                     "after_history": tail(a)[:12], "fresh_process": tail(b)[:12], "fresh_script": dict(scripts)[fname]})
            # an update repeated with no change alters nothing
            for k in range(len(a) - 1):
                pass
        return None
    impl_out, model_out, nbad = correspondence(ck, scripts, "C07: every update and call of a load/unload history", oracle=True, extra_oracle=c07_oracle)
    f = c07_oracle(None, None, impl_out)
    if f and not ck.violations:
        f[2].update(property="C07", script=f[1])
        ck.violation(verif.write_replay("C07", f[0], f[2]), True)
    ops = {}
    for _, ls in scripts:
        for l in ls:
            ops[l.split()[0]] = ops.get(l.split()[0], 0) + 1
    lt = lifetime_programs(ck, tier_n(ck, 8, 60))
    ck.coverage = proof_coverage(ck, ["C07"], {
        "registration_object_lifetimes": lt,
        "evaluations": len(scripts), "distinct_nontrivial": len({repr(l) for n_, l in scripts if not n_.endswith("-fresh") and sum(1 for x in l if x == "update") >= 2}),
        "rule": "random histories of class / method / definition registrations and removals interleaved with updates (some repeated with no change), under "
                "9 policy flavours (eager, projected, deferred ids; hashed or not); after every update a dump and a sweep of calls are compared with the model, "
                "and the observables after the last update are compared with a fresh process given only the surviving registrations; non-trivial = distinct "
                "history with at least two updates",
        "operations": ops, "traces_validated_against_impl": len(scripts),
        "samples": [{"name": n_, "script": ls[:40]} for n_, ls in scripts[:1]],
    })
    ck.assumptions = ["catalogs are modelled as lists (tied to the intrusive list by C18)",
                      "calls are issued only while the latest update has completed (an update that raised leaves the tables unspecified)",
                      "definitions and methods cannot be unregistered through the public interface inside one process (their records are function-local or "
                      "template statics): their removal is exercised on hand-built records (H-dyn), the construction and destruction of class registration "
                      "objects on the real use_classes templates (generated programs)"]


def check_C10(ck):
    rng = random.Random(repr((ck.seed, "C10")))
    scripts, groups = load_corpus("C10"), []
    n = tier_n(ck, 200, 4000)
    flavours = ["checked", "proj", "deferred", "plain", "map", "fast"]
    for i in range(n):
        reg = gen.gen_registry(rng, n_classes=rng.randint(2, 8))
        n_c = len(reg.parents)
        names = []
        seed_calls = rng.getrandbits(32)
        updates = rng.randint(1, 3)
        for pol in flavours:
            r2 = random.Random(repr((ck.seed, i, pol)))
            ids = gen.make_ids(r2, n_c, pol)
            r3 = random.Random(seed_calls)   # the same calls in every flavour
            lines, meta = gen.emit_script(r2, reg, pol, style="complete", ids=ids, shuffle=False, callnext=True, call_rng=r3)
            if updates > 1:
                k = lines.index("update")
                lines = lines[:k] + ["update"] * (updates - 1) + lines[k:]
            # flavour-independent rendering of the observables: map ids back to class indices
            back = {}
            for c, l in enumerate(ids):
                for x in l:
                    back[x] = c
            nm = "f%d-%s" % (i, pol)
            scripts.append((nm, lines))
            names.append((nm, back))
        groups.append(names)

    def norm(lines, back):
        out = []
        for l in lines:
            if l.startswith(("ran", "raised", "!")):
                l = re.sub(r"types=\[(.*?)\]", lambda m: "types=[" + ",".join(str(back.get(int(x), x)) for x in m.group(1).split(",") if x) + "]", l)
                out.append(l)
        return out

    def c10_oracle(bad, by_name, impl_out):
        for names in groups:
            obs = [norm(verif.visible(impl_out.get(nm, [])), back) for nm, back in names]
            for (nm, _), o in zip(names[1:], obs[1:]):
                if o != obs[0]:
                    return (nm, dict(scripts)[nm], {"kind": "failing input: the same registry dispatches differently under two RTTI flavours",
                                                    "flavour_a": names[0][0], "script_a": dict(scripts)[names[0][0]],
                                                    "first_difference": [x for x in zip(obs[0], o) if x[0] != x[1]][:1]})
        return None
    impl_out, model_out, nbad = correspondence(ck, scripts, "C10: each flavour agrees with the model", oracle=True, extra_oracle=c10_oracle)
    f = c10_oracle(None, None, impl_out)
    if f and not ck.violations:
        f[2].update(property="C10", script=f[1])
        ck.violation(verif.write_replay("C10", f[0], f[2]), True)
    wp = whole_programs(ck, tier_n(ck, 6, 40))
    ck.coverage = proof_coverage(ck, ["C10"], {
        "whole_programs_under_std_rtti": wp,
        "evaluations": len(scripts), "distinct_nontrivial": len(groups),
        "rule": "each abstract registry instantiated under six RTTI / lookup flavours (custom ids with identity projection hashed and checked, many-to-one "
                "projection with alias ids, deferred ids, small integer ids unhashed, v-table pointer map, unchecked hash), 1-3 updates, all call tuples "
                "with any alias id; observables must be equal across flavours after mapping ids to classes, and each flavour equal to the model",
        "flavours": flavours, "traces_validated_against_impl": len(scripts),
        "samples": [{"name": n_, "script": ls[:30]} for n_, ls in scripts[:1]],
    })
    ck.assumptions = ["std_rtti itself (typeid / type_index) is exercised by the generated whole programs (real classes with virtual inheritance, every call compared with the specification); H-dyn uses integer ids carried by the object",
                      "a hash search failure is an allowed, reported outcome (C05)"]


def policy_template_programs(ck, n):
    """generated programs: classes, methods and free-function definitions written once as templates over the policy and
    installed for three policies obtained by rebind, one after the other, with updates and sweeps of every installed
    policy in between; every sweep must print what the specification says for the registry"""
    import hprog
    rng = random.Random(repr((ck.seed, ck.prop, "policy-template")))
    progs, scripts, sweeps = [], [], {}
    for i in range(n):
        reg = gen.gen_registry(rng, n_classes=rng.randint(3, 6), shapes=["V", "VV", "VNV", "NV"], abstract_p=0.15)
        while not reg.methods:
            reg = gen.gen_registry(rng, n_classes=rng.randint(3, 6), shapes=["V", "VV", "VNV", "NV"], abstract_p=0.15)
        src, sc, k = hprog.prog_policy_template(reg, rng)
        name = "pt%d-%s" % (i, reg.family)
        progs.append((name, src))
        scripts.append((name, ["policy plain"] + sc))
        sweeps[name] = k
    res = hprog.build_and_run(progs, jobs=16)
    orc = verif.run_model(scripts, mode="--oracle")
    lines = 0
    for (name, src), (_, sc) in zip(progs, scripts):
        rc, so, se = res[name]
        got, want = so.splitlines(), orc.get(name, []) * sweeps[name]
        lines += len(got)
        if (rc != 0 or got != want) and not any(f_ for _, f_ in ck.violations):
            d_ = [(k_, a_, b_) for k_, (a_, b_) in enumerate(zip(got, want)) if a_ != b_][:3]
            found = rc is not None and (rc != 0 or bool(d_))
            per = max(1, len(orc.get(name, [])))
            ck.violation(verif.write_replay(ck.prop, name, {
                "property": ck.prop,
                "kind": ("failing input: one domain installed for several policies: a policy does not dispatch as the specification prescribes for its registry "
                         "after another policy was installed or updated" if found else "the generated program does not compile"),
                "first_differences(line, program, specification)": d_, "sweep_of_first_difference": (d_[0][0] // per) if d_ else None,
                "sweeps": [l.strip() for l in src.splitlines() if "sweep<" in l or "update<" in l or "Install<" in l][-24:],
                "rc": rc, "stderr": (se or "")[-1500:], "oracle_script": sc[:60], "program": "tools/hprog.py prog_policy_template"}), found)
    return {"programs": len(progs), "policies_per_program": 3, "lines_compared": lines}


def check_C14(ck):
    rng = random.Random(repr((ck.seed, "C14")))
    scripts, marks = load_corpus("C14"), {}
    n = tier_n(ck, 200, 3000)
    pol_sets = [["fastA", "fastB"], ["fastA", "fastB", "fastC"], ["checked", "checkedB"], ["fast", "checked"], ["fastB", "map"], ["indirect", "fastC"]]
    for i in range(n):
        pols = rng.choice(pol_sets)
        n_c = rng.randint(2, 6)
        ids = gen.make_ids(rng, n_c, "fast")        # the same class ids in every policy
        regs = {p: gen.gen_registry(rng, n_classes=n_c, shapes=["V", "VV", "VNV", "P", "PV"], n_methods=rng.randint(1, 3)) for p in pols}
        for p in pols:          # same inheritance graph everywhere (same classes), different methods
            regs[p].parents = regs[pols[0]].parents
            regs[p].abstract = regs[pols[0]].abstract
        todo = {p: registry_lines(rng, regs[p], p, ids) for p in pols}
        desc = gen.descendants(regs[pols[0]].parents)
        lines = []
        updated = set()
        registered = set()
        compiled_methods = set()
        reg_classes, compiled_classes = set(), set()
        k = 0

        def observe(p, tag):
            nonlocal k
            out = ["policy " + p, "echo %s%d" % (tag, k), "dump"]
            for m in regs[p].methods:
                if (p, m["key"]) not in compiled_methods:
                    continue
                r2 = random.Random(repr((i, p, m["key"])))
                for _ in range(6):
                    t = [r2.choice(desc[v]) for v in m["vp"]]
                    if all((p, ids[c][0]) in compiled_classes for c in t):
                        out.append("call %d %s" % (m["key"], " ".join(str(ids[c][0]) for c in t)))
                # virtual_ptr arguments of the static class: built from the class's own static cell
                kinds = [ch for ch in m["shape"] if ch != "N"]
                if sc is not None and "P" in kinds and all(sc in desc[v] for v, kd in zip(m["vp"], kinds) if kd == "P"):
                    t = [sc if kd == "P" else r2.choice(desc[v]) for v, kd in zip(m["vp"], kinds)]
                    if all((p, ids[c][0]) in compiled_classes for c in t):
                        a_ = " ".join(str(ids[c][0]) for c in t)
                        out.append("call %d %s" % (m["key"], a_))
                        out.append("callfinal %d %s" % (m["key"], a_))
            out.append("echo E%d" % k)
            k += 1
            return out
        pending = []
        # the class whose static v-table pointer cell is Policy::static_vptr<Obj>, the same class in every policy
        sc = rng.choice(range(n_c)) if rng.random() < 0.75 else None
        if sc is not None and ids[sc][0] == 0:
            sc = None       # "static 0" means no static class in the harness and in the model
        static_set = set()
        while any(todo.values()):
            p = rng.choice([q for q in pols if todo[q]])
            others = [q for q in pols if q != p and q in updated]
            watch = rng.choice(others) if others else None
            if watch:
                lines += observe(watch, "W")
                pending.append((watch, k - 1))
            lines.append("policy " + p)
            if sc is not None and p not in static_set:
                lines.append("static %d" % ids[sc][0])
                static_set.add(p)
            for _ in range(rng.randint(1, 4)):
                if todo[p]:
                    l_ = todo[p].pop(0)
                    lines.append(l_)
                    if l_.startswith("method "):
                        registered.add((p, int(l_.split()[1])))
                    if l_.startswith("class "):
                        reg_classes.add((p, int(l_.split()[2])))
            if rng.random() < 0.5 or not todo[p]:
                lines.append("update")
                updated.add(p)
                compiled_methods |= {x for x in registered if x[0] == p}
                compiled_classes |= {x for x in reg_classes if x[0] == p}
            if watch:
                lines += observe(watch, "X")
                pending[-1] = (watch, pending[-1][1], k - 1)
        name = "i%d-%s" % (i, "+".join(pols))
        scripts.append((name, lines))
        marks[name] = [p_ for p_ in pending if len(p_) == 3]

    def c14_oracle(bad, by_name, impl_out):
        for name, lines in scripts:
            out = verif.visible(impl_out.get(name, []))
            for watch, a, b in marks.get(name, []):
                def block(tag, k_):
                    try:
                        s_ = out.index("@%s%d" % (tag, k_))
                        e_ = out.index("@E%d" % k_)
                        return out[s_ + 1:e_]
                    except ValueError:
                        return None
                x, y = block("W", a), block("X", b)
                if x is not None and y is not None and x != y:
                    d_ = [z for z in zip(x, y) if z[0] != z[1]][:1]
                    return (name, lines, {"kind": "failing input: operations on one policy changed what another policy holds or how it dispatches",
                                          "watched_policy": watch, "first_difference": d_})
        return None
    impl_out, model_out, nbad = correspondence(ck, scripts, "C14: interleaved registrations, updates and calls over several policies", oracle=False, extra_oracle=c14_oracle)
    f = c14_oracle(None, None, impl_out)
    if f and not ck.violations:
        f[2].update(property="C14", script=f[1])
        ck.violation(verif.write_replay("C14", f[0], f[2]), True)
    pt = policy_template_programs(ck, tier_n(ck, 6, 40))
    ck.coverage = proof_coverage(ck, ["C14"], {
        "one_domain_several_policies_programs": pt,
        "evaluations": len(scripts), "distinct_nontrivial": len({repr(l) for _, l in scripts}),
        "rule": "two or three policies (three obtained from one another by rebind, plus stock-like policies with other facets) registering the same class ids "
                "with different methods; registrations and updates of one policy are interleaved with a full dump and a call sweep of another policy before "
                "and after, which must be identical; everything is also compared with the model, whose policy states are independent by construction",
        "policy_sets": pol_sets, "watch_points": sum(len(v) for v in marks.values()),
        "traces_validated_against_impl": len(scripts),
        "samples": [{"name": n_, "script": ls[:40]} for n_, ls in scripts[:1]],
    })
    ck.assumptions = ["that distinct policy keys give distinct template instantiations and hence distinct statics is a property of the C++ compiler; it is observed, not proved",
                      "policies made by replace / remove keep the key and are documented to share static data; they are not claimed isolated"]


# ----------------------------------------------------------------------------------------------------
# C12 static offsets, C13 codec, C19 forward declarations  (generator policies: tag ids 0..63)

def gen_tag_script(rng, pol="gen", shapes=None, dump=True, dup_records=False, unused_classes=True):
    reg = gen.gen_registry(rng, n_classes=rng.randint(2, 9), shapes=shapes or ["V", "NV", "VN", "VV", "VNV", "NVVN", "VVV", "VVVV"], max_defs=7)
    n_c = len(reg.parents)
    extra = rng.randint(0, 3) if unused_classes else 0     # classes no method touches
    tags = rng.sample(range(1, 60), n_c + extra)
    ids = [[t] for t in tags[:n_c]]
    style = rng.choice(gen.STYLES)
    lines, meta = gen.emit_script(rng, reg, pol, style=style, ids=ids, dump=dump, callnext=False, max_calls=60)
    k = lines.index("update")
    pre = lines[:k]
    for j, t in enumerate(tags[n_c:]):
        pos = rng.randint(1, len(pre))
        pre.insert(pos, "class %d %d 0 %d" % (800 + j, t, t))
    if dup_records:
        cl = [l for l in pre if l.startswith("class ")]
        for l in rng.sample(cl, min(len(cl), rng.randint(1, 2))):
            t = l.split()
            t[1] = str(int(t[1]) + 500)
            pre.insert(rng.randint(1, len(pre)), " ".join(t))
    return pre, lines[k:], reg


def check_C12(ck):
    rng = random.Random(repr((ck.seed, "C12")))
    scripts = load_corpus("C12")
    n = tier_n(ck, 400, 6000)
    ar_hist = {}
    for i in range(n):
        pre, post, reg = gen_tag_script(rng, shapes=["V", "NV", "VV", "VNV", "NVVN", "VVV", "VVVV", "VVVV", "VVV"])
        for m in reg.methods:
            a = gen.arity(m["shape"])
            ar_hist[str(a)] = ar_hist.get(str(a), 0) + 1
        scripts.append(("o%d" % i, pre + ["update", "dump", "offsets"]))

    def c12_oracle(bad, by_name, impl_out):
        for name, lines in scripts:
            out = verif.visible(impl_out.get(name, []))
            inst = {}
            for l in out:
                m = re.match(r"ss (-?\d+) \[(.*)\]", l)
                if m:
                    inst[m.group(1)] = [int(x) for x in m.group(2).split(",") if x]
            for l in out:
                m = re.match(r"offsets .*static_offsets<M(-?\d+)> \{static constexpr std::size_t slots\[\] = \{(.*?)\};(?: static constexpr std::size_t strides\[\] = \{(.*?)\};)? \};", l)
                if l.startswith("offsets ") and not m:
                    return (name, lines, {"kind": "failing input: generated offsets are not of the expected form", "implementation": l})
                if m:
                    slots = [int(x) for x in m.group(2).split(",") if x.strip()]
                    strides = [int(x) for x in (m.group(3) or "").split(",") if x.strip()]
                    ss = inst.get(m.group(1))
                    if ss is not None and slots + strides != ss:
                        return (name, lines, {"kind": "failing input: generated static offsets differ from the installed ones",
                                              "method": int(m.group(1)), "generated": {"slots": slots, "strides": strides}, "installed_slots_then_strides": ss})
        return None
    impl_out, model_out, nbad = correspondence(ck, scripts, "C12: text of the generated static offsets", oracle=False, extra_oracle=c12_oracle)
    f = c12_oracle(None, None, impl_out)
    if f and not ck.violations:
        f[2].update(property="C12", script=f[1])
        ck.violation(verif.write_replay("C12", f[0], f[2]), True)
    # programs compiled against the generated header: stage A writes slots.hpp, stage B is the same source
    # compiled with it; tampered headers must be rejected by the debug-build cross-check
    import hprog
    so_cases = []
    n_so = 2 if ck.tier == "quick" else 8
    for i in range(n_so):
        perm = list(range(7))
        rng.shuffle(perm)
        checked = (i % 2 == 0)
        tampers = []
        if checked:
            for _ in range(3 if ck.tier == "quick" else 5):
                mname = rng.choice(["m1", "m2", "m3", "m4", "m5", "m7", "m7"])
                ar = {"m1": 1, "m2": 1, "m3": 2, "m4": 3, "m5": 2, "m6": 1, "m7": 2}[mname]
                which = "slot" if ar == 1 or rng.random() < 0.5 else "stride"
                idx = rng.randrange(ar if which == "slot" else ar - 1)
                tampers.append((mname, which, idx, rng.randint(1, 3)))
        so_cases.append(("so%d" % i, perm, checked, tampers))
    so_report = []
    for name, perm, checked, tampers in so_cases:
        r = hprog.static_offsets_case(name, perm, checked, tampers)
        a, b = r.get("stageA", (None, "", "")), r.get("stageB", (None, "", "missing"))
        def phases(text):
            ls = [l for l in text.splitlines() if not l.startswith("static ")]
            k = ls.index("phase2") if "phase2" in ls else len(ls)
            return ls[:k], ls[k + 1:]
        la, la2 = phases(a[1])
        lb, lb2 = phases(b[1])
        ok = a[0] == 0 and b[0] == 0 and la == lb and "static 1 1 1 1 1 1 1" in b[1] and "static 0 0 0 0 0 0 0" in a[1]
        entry = {"case": name, "declaration_order": perm, "checked_policy": checked, "calls_compared": len([l for l in la if " -> " in l]),
                 "stage_b_equals_stage_a": la == lb, "tampers": []}
        if not ok and not any(f_ for _, f_ in ck.violations):
            d_ = [x for x in zip(la, lb) if x[0] != x[1]][:3]
            # a crash of the program compiled with the generated offsets, where the one reading them at run time
            # completes, is a failing input too (typically a stale or wrong offset accepted and followed)
            found = a[0] == 0 and b[0] is not None and (b[0] != 0 or bool(d_))
            if found:
                ck.violations = []      # a concrete failing program replaces a correspondence break without input
            ck.violation(verif.write_replay("C12", name, {
                "property": "C12", "kind": ("failing input: a program compiled with the generated static offsets dispatches differently from the one reading them at run time"
                                            if found else "the two-stage program does not build or run"),
                "program": "tools/hprog.py static_offsets_case(%r, %r, %r)" % (name, perm, checked),
                "differences(run time, static)": d_, "stageA": list(a)[0:1] + [a[2][-800:]], "stageB": list(b)[0:1] + [b[2][-800:]],
                "last_lines_of_the_static_program": b[1].splitlines()[-4:], "lines_printed(run time, static)": [len(a[1].splitlines()), len(b[1].splitlines())]}), found)
        # what the installed arrays are, per method
        inst = {}
        for l in la:
            m_ = re.match(r"ss \S*YoMm2_S_(m\d)\S* \[(.*)\]", l)
            if m_:
                inst[m_.group(1)] = [int(x) for x in m_.group(2).split(",") if x]
        # phase 2 (checked policy): a class registered late joins two hierarchies, the second update moves slots; the
        # offsets generated from the first update are now stale for some methods: exactly their calls must be rejected
        # by the cross-check, as the model prescribes, and the others must dispatch as at run time
        if checked and ok:
            inst2 = {}
            for l in la2:
                m_ = re.match(r"ss \S*YoMm2_S_(m\d)\S* \[(.*)\]", l)
                if m_:
                    inst2[m_.group(1)] = [int(x) for x in m_.group(2).split(",") if x]
            moved, p2bad = [], None
            if [l for l in la2 if l.startswith("ss ")] != [l for l in lb2 if l.startswith("ss ")]:
                p2bad = ("installed arrays differ in phase 2", la2[:6], lb2[:6])
            for mname in sorted(inst2):
                ar = {"m1": 1, "m2": 1, "m3": 2, "m4": 3, "m5": 2, "m6": 1, "m7": 2}[mname]
                want = verif.run_model([("t", ["static-check %d %s | %s" % (ar, " ".join(map(str, inst.get(mname, []))), " ".join(map(str, inst2[mname])))])]).get("t", [""])[0].replace("static-check ", "")
                ca = [l for l in la2 if l.startswith(mname + "(")]
                cb = [l for l in lb2 if l.startswith(mname + "(")]
                if want == "ok":
                    if ca != cb and not p2bad:
                        p2bad = ("method %s: offsets still current, yet the static program dispatches differently" % mname, ca[:3], cb[:3])
                else:
                    moved.append(mname)
                    if (not cb or not all(l.endswith("-> " + want) for l in cb)) and not p2bad:
                        p2bad = ("method %s: stale static offsets %s (installed now %s) must be rejected with %s" % (mname, inst.get(mname), inst2[mname], want), ca[:3], cb[:3])
            entry["phase2"] = {"methods_whose_offsets_moved": moved, "calls": len([l for l in lb2 if " -> " in l]), "as_model": p2bad is None}
            if p2bad and not any(f_ for _, f_ in ck.violations):
                ck.violations = []
                ck.violation(verif.write_replay("C12", name + "-phase2", {
                    "property": "C12", "kind": "failing input: after a later update moved slots, the debug-build cross-check does not reject the stale static offsets (or rejects current ones)",
                    "what": p2bad[0], "run_time_program": p2bad[1], "static_program": p2bad[2],
                    "program": "tools/hprog.py static_offsets_case(%r, %r, %r)" % (name, perm, checked)}), True)
        for (mname, which, idx, delta), t_ in zip(tampers, r.get("tampers", [])):
            desc, rc, so, se = t_
            ar = {"m1": 1, "m2": 1, "m3": 2, "m4": 3, "m5": 2, "m6": 1, "m7": 2}[mname]
            st = list(inst.get(mname, []))
            pos = idx if which == "slot" else ar + idx
            if pos < len(st):
                st[pos] += delta
            want = verif.run_model([("t", ["static-check %d %s | %s" % (ar, " ".join(map(str, st)), " ".join(map(str, inst.get(mname, []))))])]).get("t", [""])[0]
            want_kind = want.replace("static-check ", "")
            so1 = phases(so)[0]
            calls = [l for l in so1 if l.startswith(mname + "(")]
            others_a = [l for l in la if " -> " in l and not l.startswith(mname + "(")]
            others_t = [l for l in so1 if " -> " in l and not l.startswith(mname + "(")]
            good = rc == 0 and calls and all(l.endswith("-> " + want_kind) for l in calls) and others_a == others_t and want_kind != "ok"
            entry["tampers"].append({"tamper": desc, "model": want_kind, "rejected_calls": len(calls), "as_model": bool(good)})
            if not good and not ck.violations:
                ck.violation(verif.write_replay("C12", name + "-tamper", {
                    "property": "C12", "kind": "failing input: wrong static offsets are not rejected by the debug-build cross-check as the model prescribes",
                    "tamper": desc, "model": want, "calls": calls[:5], "rc": rc, "stderr": se[-800:],
                    "program": "tools/hprog.py static_offsets_case(%r, %r, %r, %r)" % (name, perm, checked, tampers)}), rc is not None)
        so_report.append(entry)
    ck.coverage = proof_coverage(ck, ["C12"], {
        "evaluations": len(scripts) + len(so_cases), "distinct_nontrivial": len({repr(l) for _, l in scripts}) + len(so_cases),
        "static_offset_programs": so_report,
        "rule": "registries with methods of arity 1-4 (arity 3 and 4 over-represented) under a policy whose ids are std::type_info pointers; after update the "
                "real generator writes the static offsets, whose text is compared with the model's and whose numbers are compared with the installed slots/strides; "
                "two-stage programs: the same source compiled without and with the generated header must print the same installed arrays and the same result for every call "
                "(145 calls over all class tuples), under a checked and an unchecked policy; headers with one number changed must make exactly the calls of that method raise "
                "static_slot_error / static_stride_error as the model's cross-check prescribes, and leave the other methods alone",
        "methods_by_arity": ar_hist, "traces_validated_against_impl": len(scripts),
        "samples": [{"name": n_, "script": ls[-12:]} for n_, ls in scripts[:1]],
    })
    ck.assumptions = ["the two-stage programs use one class lattice (two roots joined by multiple inheritance) and five methods of arity 1-3 with non-virtual parameters in between; the order of the method declarations, which decides the slots, is random"]


def check_C13(ck):
    rng = random.Random(repr((ck.seed, "C13")))
    scripts = load_corpus("C13")
    n = tier_n(ck, 400, 6000)
    for i in range(n):
        pol = "gen" if rng.random() < 0.7 else "genh"
        pre, post, reg = gen_tag_script(rng, pol=pol, dup_records=(rng.random() < 0.3 and pol == "gen"))
        calls = [l for l in post if l.startswith("call ")]
        # every third call also follows next from inside the definition that runs (D15: the decoder restores the next cells)
        calls = [("callnext" + l[4:]) if k % 3 == 2 else l for k, l in enumerate(calls)]
        body = pre + ["update"] + (["dump"] if pol == "gen" else []) + ["encode"] + calls + ["echo D", "decode"] + calls
        scripts.append(("e%d-%s" % (i, pol), body))

    known = verif.known_findings_for("C13")
    d15_known = any("next-null" in k.get("witness", "") for k in known)
    d15_seen = []

    def c13_oracle(bad, by_name, impl_out):
        for name, lines in scripts:
            out = verif.visible(impl_out.get(name, []))
            if any(l.startswith(("!signal", "!exit")) for l in out):
                return (name, lines, {"kind": "failing input: encoding or decoding crashed / read or wrote outside the emitted structure", "output": out[-4:]})
            if "@D" not in out:
                continue
            k = out.index("@D")
            before = [l for l in out[:k] if l.startswith(("ran", "raised"))]
            after = [l for l in out[k:] if l.startswith(("ran", "raised"))]
            dec = [l for l in out[k:] if l.startswith("decode")]
            if dec and dec[0] != "decode ok":
                return (name, lines, {"kind": "failing input: the emitted data cannot be decoded", "implementation": dec[0]})
            if before != after:
                d_ = [z for z in zip(before, after) if z[0] != z[1]]
                # D15: a definition that calls next after decoding finds its next cell null
                d15 = [z for z in d_ if z[1].endswith(" next-null")]
                rest = [z for z in d_ if not z[1].endswith(" next-null")]
                if d15 and d15_known and not rest and len(before) == len(after):
                    if name not in d15_seen:
                        d15_seen.append(name)
                    continue
                return (name, lines, {"kind": "failing input: calls after decoding differ from calls after update", "first_difference": (rest or d_)[:1]})
        return None
    impl_out, model_out, nbad = correspondence(ck, scripts, "C13: extents, the three encoded streams, decoded words, v-table pointers, calls before and after decoding",
                                               oracle=False, extra_oracle=c13_oracle)
    f = c13_oracle(None, None, impl_out)
    if f and not ck.violations:
        f[2].update(property="C13", script=f[1])
        ck.violation(verif.write_replay("C13", f[0], f[2]), True)
    if d15_seen:
        ck.known_observed = {k.get("witness") for k in known if "next-null" in k.get("witness", "")}
    empty = sum(1 for ls in impl_out.values() for l in ls if l.startswith("class ") and l.endswith("vtbl=[]"))
    nonzero_first = sum(1 for ls in impl_out.values() for l in ls if l.startswith("class ") and " first=0 " not in l)
    # capacity of the 16-bit codes (D14): around the largest definition index that fits beside the stop flag.
    # The model cannot be run at this size (its selection is cubic in the number of definitions); it says
    # (fits16, C13_emits_iff_fits) that the encoder emits iff the index of the ambiguous cell, i.e. the
    # number of definitions, is below 2^15 - and whatever is emitted must decode to the same calls.
    cap = []
    for n_ in ([32767, 32768] if ck.tier == "quick" else [32766, 32767, 32768, 32769, 40000]):
        cap.append(("capacity-%d" % n_, ["policy gen", "class 1 2 0 2", "method 0 V 2", "def 0 100 2", "ghostdefs 0 %d 2" % (n_ - 1),
                                         "update", "encode", "call 0 2", "echo D", "decode", "call 0 2"], n_))
    cap_out, _ = verif.run_impl(ck.exe, [(n, l) for n, l, _ in cap])
    cap_res = []
    for name, lines, n_ in cap:
        out = verif.visible(cap_out.get(name, []))
        refused = "encode refused" in out
        k = out.index("@D") if "@D" in out else len(out)
        before = [l for l in out[:k] if l.startswith(("ran", "raised"))]
        after = [l for l in out[k:] if l.startswith(("ran", "raised"))]
        dec = [l for l in out[k:] if l.startswith("decode")]
        cap_res.append({"definitions": n_, "refused": refused, "calls_before": before, "calls_after": after})
        if any(l.startswith(("!signal", "!exit")) for l in out) or not before:
            kind = "the capacity script crashed or printed no call"
            found = False
        elif refused:
            # a refusal is always safe; it must not happen when everything fits
            if n_ < 32768:
                kind, found = "the encoder refuses a registry whose values all fit their fields (%d definitions)" % n_, True
            else:
                continue
        elif dec[:1] != ["decode ok"] or before != after:
            kind, found = ("failing input: with %d definitions of one method the emitted data decodes to tables on which the call behaves "
                           "differently (index does not fit beside the stop flag)" % n_), True
        elif n_ >= 32768:
            kind, found = "the encoder emitted data for a definition index that does not fit (%d definitions), although calls agree" % n_, False
        else:
            continue
        if not any(f_ for _, f_ in ck.violations):
            ck.violation(verif.write_replay("C13", name, {"property": "C13", "kind": kind, "script": lines, "output": out[-8:]}), found)
    ck.coverage = proof_coverage(ck, ["C13"], {
        "evaluations": len(scripts), "distinct_nontrivial": len({repr(l) for _, l in scripts}),
        "rule": "registries (uni- and multi-methods, error cells, classes no method touches, lattices whose v-tables do not start at slot 0, 30% with a class "
                "registered twice) under two generator policies; the real encoder's text is parsed, laid out in a heap block of exactly the emitted struct's "
                "layout (ASan guards both ends), decoded in place by the real decoder; extents, streams, decoded words and calls are compared with the model, "
                "and the calls after decoding with the calls after update",
        "classes_with_empty_vtbl": empty, "classes_with_first_slot_nonzero": nonzero_first,
        "capacity_of_the_16_bit_codes": cap_res,
        "traces_validated_against_impl": len(scripts),
        "samples": [{"name": n_, "script": ls[:30]} for n_, ls in scripts[:1]],
    })
    ck.assumptions = ["acceptance of the emitted text by g++ and clang++ is checked by the thorough tier on a sample; here the text is parsed by the harness",
                      "at the capacity limit of the 16-bit codes (32768 definitions) the implementation is run without the model, whose selection is cubic in the number of definitions; the expected behaviour there is derived from fits16 / C13_emits_iff_fits, and a 300-definition script of the same shape is in the corpus for the model"]


NAME_ALPHA = "abcXY_019"


def rand_ident(rng):
    first = rng.choice("abcXYZ_q")
    return first + "".join(rng.choice(NAME_ALPHA) for _ in range(rng.randint(0, 3)))


FILTER_WORDS = ["std", "yorel", "void", "bool", "char", "int", "float", "double", "short", "long", "signed", "unsigned", "class", "struct",
                "enum", "const", "volatile", "wchar_t", "char8_t", "char16_t", "char32_t"]


def boundary_idents(rng, k=3):
    """identifiers next to what the generator filters out: proper prefixes and one-character extensions of `std`,
    `yorel` and the keywords (never the words themselves) - a class may be called `st`, `yo`, `in` or `intx`"""
    out = []
    for _ in range(k):
        w = rng.choice(FILTER_WORDS[:2]) if rng.random() < 0.5 else rng.choice(FILTER_WORDS)
        if rng.random() < 0.6 and len(w) > 1:
            out.append(w[:rng.randint(1, len(w) - 1)])
        else:
            out.append(w + rng.choice("x_9"))
    return [x for x in out if x not in FILTER_WORDS and x != "__int128"]


def rand_qualified(rng, pool):
    depth = rng.choice([0, 0, 1, 1, 2, 3])
    return "::".join(rng.choice(pool) for _ in range(depth + 1))


def rand_type(rng, pool, depth=0):
    r = rng.random()
    fundamental = ["int", "void", "double", "unsigned long", "char const*", "wchar_t", "bool", "long long", "char16_t"]
    if depth > 2 or r < 0.25:
        return rng.choice(fundamental)
    if r < 0.55:
        q = rand_qualified(rng, pool)
        return q + rng.choice(["", "&", " const&", "*", " const*", "&&", " volatile&"])
    if r < 0.7:
        return "std::" + rng.choice(["vector", "shared_ptr", "pair"]) + "<" + ", ".join(rand_type(rng, pool, depth + 1) for _ in range(rng.randint(1, 2))) + ">" + rng.choice(["", " const&", "&"])
    if r < 0.85:
        return rand_qualified(rng, pool) + rng.choice(["<", " <"]) + ", ".join(rand_type(rng, pool, depth + 1) for _ in range(rng.randint(1, 2))) + ">" + rng.choice(["", "*"])
    if r < 0.90:
        return "yorel::yomm2::virtual_<" + rand_type(rng, pool, depth + 1) + ">"
    if r < 0.95:
        # pointers to members, as the demangler writes them: `T C::*` and `R (C::*)(args)` (a qualified name followed by `::*`)
        cls = rand_qualified(rng, pool)
        if rng.random() < 0.5:
            return rand_type(rng, pool, depth + 1) + " " + cls + "::*"
        return rand_type(rng, pool, depth + 1) + " (" + cls + "::*)(" + ", ".join(rand_type(rng, pool, depth + 1) for _ in range(rng.randint(0, 2))) + ")" + rng.choice(["", " const"])
    return rand_type(rng, pool, depth + 1) + " (" + ", ".join(rand_type(rng, pool, depth + 1) for _ in range(rng.randint(0, 3))) + ")"


CXX_FUNDAMENTAL_TOKENS = {"void", "bool", "char", "int", "float", "double", "short", "long", "signed", "unsigned", "const", "volatile",
                          "wchar_t", "char8_t", "char16_t", "char32_t", "__int128", "class", "struct", "enum"}


def check_C19(ck):
    rng = random.Random(repr((ck.seed, "C19")))
    scripts = load_corpus("C19")
    n = tier_n(ck, 600, 10000)
    nsets = 0
    for i in range(n):
        lines = []
        for j in range(8):
            pool = [rand_ident(rng) for _ in range(rng.randint(2, 5))]
            # identifiers that are string prefixes of one another
            if rng.random() < 0.5:
                pool.append(pool[0] + rng.choice(NAME_ALPHA))
            if rng.random() < 0.25:
                pool += boundary_idents(rng)
            if rng.random() < 0.5:
                names = [rand_qualified(rng, pool) for _ in range(rng.randint(1, 7))]
                lines.append("fwd-names " + " ".join(names))
                nsets += 1
            else:
                lines.append("fwd-type " + rand_type(rng, pool))
        scripts.append(("w%d" % i, lines))

    def parse_decls(text):
        """names declared by the text, or None when it is not balanced / well formed"""
        toks = text.split("|")
        stack, out = [], []
        for t in toks:
            if not t:
                continue
            m = re.fullmatch(r"namespace ([A-Za-z_]\w*) \{", t)
            if m:
                stack.append(m.group(1))
                continue
            m = re.fullmatch(r"class ([A-Za-z_]\w*);", t)
            if m:
                out.append("::".join(stack + [m.group(1)]))
                continue
            if t == "}":
                if not stack:
                    return None
                stack.pop()
                continue
            return None
        return None if stack else out

    def c19_oracle(bad, by_name, impl_out):
        for name, lines in scripts:
            out = verif.visible(impl_out.get(name, []))
            fw = [l[4:] for l in out if l.startswith("fwd ")]
            for l, text in zip(lines, fw):
                decl = parse_decls(text)
                if decl is None:
                    return (name, [l], {"kind": "failing input: the forward declarations are not balanced, well-formed C++", "implementation": text})
                if len(set(decl)) != len(decl):
                    return (name, [l], {"kind": "failing input: a class is declared more than once", "implementation": text})
                # the language's own type and specifier tokens can never be forward-declared classes (an independent
                # list: the generator's keyword table is re-extracted from the source and is not trusted here)
                builtin = [d_ for d_ in decl if d_ in CXX_FUNDAMENTAL_TOKENS]
                if builtin and l.startswith("fwd-type "):
                    return (name, [l], {"kind": "failing input: a fundamental type or specifier is forward-declared as a class",
                                        "declared": builtin, "implementation": text})
                if l.startswith("fwd-names "):
                    want = sorted(set(x for x in l.split()[1:] if not x.startswith(("std::", "yorel::"))
                                      and x not in ("void", "bool", "char", "int", "float", "double", "short", "long", "signed", "unsigned", "class", "struct", "enum", "const", "volatile")))
                    if sorted(decl) != want:
                        return (name, [l], {"kind": "failing input: the declared classes are not exactly the requested ones", "requested": want, "declared": sorted(decl)})
        return None
    impl_out, model_out, nbad = correspondence(ck, scripts, "C19: text of the forward declarations for name sets and type descriptions", oracle=False, extra_oracle=c19_oracle)
    f = c19_oracle(None, None, impl_out)
    if f and not ck.violations:
        f[2].update(property="C19", script=f[1])
        ck.violation(verif.write_replay("C19", f[0], f[2]), True)
    ck.coverage = proof_coverage(ck, ["C19"], {
        "evaluations": sum(len(l) for _, l in scripts), "distinct_nontrivial": len({l for _, ls in scripts for l in ls}),
        "rule": "sets of 1-7 qualified names over small identifier pools (nesting 0-3, shared and diverging prefixes, identifiers that are string prefixes "
                "of one another, digits and underscores), and type descriptions from a grammar of cv-qualified references / pointers / std:: and user templates / "
                "function types; the real generator's text is compared with the model's character for character, parsed for balance, and for name sets "
                "compared with the requested set",
        "name_sets": nsets, "traces_validated_against_impl": len(scripts),
        "samples": [{"name": n_, "script": ls[:4]} for n_, ls in scripts[:2]],
    })
    ck.assumptions = ["std::regex is modelled by an equivalent hand-written scanner", "the compile check of the emitted declarations is part of the thorough tier"]


# ----------------------------------------------------------------------------------------------------
# C20 use_definitions (generated programs)

def check_C20(ck):
    import hprog
    rng = random.Random(repr((ck.seed, "C20")))
    cases = [(1, 1, []), (2, 3, [(0, 1)]), (3, 3, [(0, 0), (1, 1), (2, 2)]), (4, 2, [])]
    for _ in range(tier_n(ck, 5, 24)):
        nl, nr = rng.randint(1, 7), rng.randint(1, 7)
        holes = sorted({(rng.randrange(nl), rng.randrange(nr)) for _ in range(rng.randint(0, nl * nr // 2))})
        cases.append((nl, nr, holes))
    # both sides of the 512-element split of aggregate
    big = [(23, 23, [(0, 0), (22, 22)])] if ck.tier == "quick" else [(22, 23, []), (23, 23, [(3, 4)]), (24, 22, [(0, 0)]), (32, 33, [(31, 32), (7, 7)])]
    cases += big
    forms = ["member", "pointer", "reference"]
    form_of = [forms[i % 3] for i in range(len(cases))]
    form_of[-len(big):] = ["member"] * len(big)      # the large products keep the cheapest form to compile
    programs = [("ud%d" % i, hprog.prog_use_definitions(nl, nr, holes, form_of[i])) for i, (nl, nr, holes) in enumerate(cases)]
    # aggregate on its own, around every level of the 512-element split (odd and even sizes)
    agg_sizes = [0, 1, 2, 511, 512, 513, 514, 1025, 1026, 1027, 2051] + ([] if ck.tier == "quick" else [1023, 1024, 1539, 3001, 4099])
    agg_programs = [("agg%d" % n_, hprog.prog_aggregate(n_)) for n_ in agg_sizes]
    res = hprog.build_and_run(programs + agg_programs, jobs=16)
    scripts = [("ud%d" % i, ["use-defs %d %d %s" % (nl, nr, " ".join("%d:%d" % h for h in holes))]) for i, (nl, nr, holes) in enumerate(cases)]
    agg_scripts = [("agg%d" % n_, ["aggregate %d" % n_]) for n_ in agg_sizes]
    model = verif.run_model(scripts + agg_scripts)
    bad = 0
    for (name, _), n_ in zip(agg_scripts, agg_sizes):
        rc, so, se = res[name]
        got, want = so.splitlines(), model.get(name, [])
        if rc != 0 or got != want:
            bad += 1
            if not ck.violations:
                found = rc == 0 and bool(got) and ("missing=[]" not in got[0] or "twice=[]" not in got[0])
                path = verif.write_replay("C20", name, {
                    "property": "C20", "kind": ("failing input: aggregate of %d elements does not construct every element exactly once" % n_) if found else
                                               "correspondence broken: generated program and model differ (or the program does not compile / crashed)",
                    "program_output": got[:2], "model": want[:2], "rc": rc, "stderr": se[-1500:], "program": "tools/hprog.py prog_aggregate(%d)" % n_})
                ck.violation(path, found)
    for (name, lines), (nl, nr, holes) in zip(scripts, cases):
        rc, so, se = res[name]
        got = so.splitlines()
        want = model.get(name, [])
        if rc != 0 or got != want:
            bad += 1
            if not ck.violations:
                # the specification directly: registered = product minus holes, each once
                exp_reg = sorted((i, j) for i in range(nl) for j in range(nr) if (i, j) not in holes)
                reg_line = [l for l in got if l.startswith("registered")]
                got_reg = sorted(tuple(int(x) for x in t.split(":")) for t in reg_line[0].split()[1:]) if reg_line else None
                found = rc is not None and got_reg != exp_reg
                path = verif.write_replay("C20", name, {
                    "property": "C20", "kind": ("failing input: use_definitions did not register exactly the defined combinations" if found else
                                                "correspondence broken: generated program and model differ (or the program does not compile / crashed)"),
                    "lists": [nl, nr], "not_defined": holes, "program_output": got[:3], "model": want[:3], "rc": rc, "stderr": se[-1500:],
                    "program": "tools/hprog.py prog_use_definitions(%d, %d, %r, %r)" % (nl, nr, holes, form_of[int(name[2:])])})
                ck.violation(path, found)
    ck.coverage = proof_coverage(ck, ["C20"], {
        "evaluations": len(cases) + len(agg_sizes), "distinct_nontrivial": len({repr(c) for c in cases if c[0] * c[1] > 1}) + len([n_ for n_ in agg_sizes if n_ > 1]),
        "programs": len(cases) + len(agg_sizes), "disagreements_checked": bad, "definition_forms": form_of,
        "rule": "generated programs: a 2-method over Base with leaf classes L<i>, R<j>, a definition template (providing fn as a static member function, a constexpr function pointer or a function reference, in turn) specialised to not_defined on a random subset, "
                "use_definitions over product<types<M>, Ls, Rs>; the program prints the compile-time product in order, the definitions found in the method's "
                "catalog and the result of dispatching through every combination; the model predicts all three. Sizes 1..7 per list plus products on both sides of the 512 split (with an odd number of kept combinations); "
                "plus aggregate alone over n trivial elements for n around every level of the split, counting constructions per element",
        "aggregate_sizes": agg_sizes,
        "largest_product": max(c[0] * c[1] for c in cases),
        "traces_validated_against_impl": len(cases),
        "samples": [{"lists": [c[0], c[1]], "not_defined": c[2]} for c in cases[:3]],
    })
    ck.assumptions = ["the model of boost::mp11::mp_product / mp_copy_if / std::tuple is hand-written; the generated programs tie it to the compiler",
                      "std::tuple construction order (hence registration order) is unspecified: registrations are compared as sorted lists"]


check_C20.needs_hdyn = False


# ----------------------------------------------------------------------------------------------------
# C16 concurrency (TSan harness + write-effect table of the call path)

def check_C16(ck):
    import hprog
    src = open(os.path.join(verif.VERIF, "harness", "tsan", "tsan.cpp")).read()
    inc = os.path.join(verif.REPO, "include")
    out_dir = os.path.join(verif.CACHE, "tsan")
    os.makedirs(out_dir, exist_ok=True)
    compilers = ["g++"] if ck.tier == "quick" else ["g++", "clang++-14"]
    runs = []
    for comp in compilers:
        exe = os.path.join(out_dir, "tsan-" + comp.replace("+", "p"))
        b = verif.sh([comp, "-std=c++17", "-O1", "-g", "-fsanitize=thread", "-I" + inc, os.path.join(verif.VERIF, "harness", "tsan", "tsan.cpp"), "-o", exe, "-lpthread"])
        if b.returncode != 0:
            path = verif.write_replay("C16", "tsan-build", {"property": "C16", "kind": "the thread harness does not build against the current tree", "errors": b.stderr[-3000:]})
            ck.violation(path, False)
            continue
        for threads, iters in ([(8, 3000), (16, 1500)] if ck.tier == "quick" else [(8, 20000), (16, 20000), (32, 5000), (3, 50000)]):
            env = dict(os.environ)
            env["TSAN_OPTIONS"] = "exitcode=66:halt_on_error=0"
            r = verif.sh([exe, str(threads), str(iters)], env=env)
            races = r.stderr.count("WARNING: ThreadSanitizer: data race")
            ok = r.returncode == 0 and "bad=0" in r.stdout and "ThreadSanitizer" not in r.stderr
            runs.append({"compiler": comp, "threads": threads + 1, "iterations": iters, "rc": r.returncode, "stdout": r.stdout.strip(), "tsan_reports": races})
            if not ok and not any(f for _, f in ck.violations):
                first = r.stderr[r.stderr.find("WARNING: ThreadSanitizer"):][:2500] if "ThreadSanitizer" in r.stderr else r.stderr[-1500:]
                path = verif.write_replay("C16", "tsan-%s-%d" % (comp.replace("+", "p"), threads), {
                    "property": "C16", "kind": "failing schedule: ThreadSanitizer reported a data race or a thread saw a result different from the sequential one",
                    "command": "%s %d %d   (TSAN_OPTIONS=%s)" % (exe, threads, iters, env["TSAN_OPTIONS"]), "stdout": r.stdout, "report": first})
                ck.violation(path, True)
    eff = []
    try:
        txt = open(os.path.join(verif.LEAN, "Yomm2", "Generated", "CallPath.lean")).read()
        eff = re.findall(r'\("([^"]+)", "([^"]+)", "([^"]+)"\)', txt)
    except OSError:
        pass
    ck.coverage = proof_coverage(ck, ["C16"], {
        "evaluations": len(runs), "distinct_nontrivial": len(runs),
        "rule": "harness/tsan/tsan.cpp built with -fsanitize=thread: N threads x five policies (release-like hash, checked hash, v-table pointer map, "
                "indirect v-table pointers, v-table pointer map over std::map) dispatching through references, virtual_ptr (constructed, copied, final), "
                "virtual_shared_ptr and resolve(), while another thread updates two unrelated policies 40 times each, one of them obtained by rebind from "
                "a policy the other threads are using (its facets must be re-keyed on the new policy: checked); a TSan report or a per-thread result different from the sequential one is a "
                "violation. Every run is non-trivial (>= 4 threads on shared tables). The write-effect table of the call path is re-extracted from clang's AST and checked by the kernel",
        "runs": runs, "call_path_effects": [list(e) for e in eff], "traces_validated_against_impl": len(runs),
        "samples": runs[:1],
    })
    ck.assumptions = ["data-race freedom of the real binary under the C++ memory model cannot be exhibited by the Lean model: it is observed by TSan on the schedules that occurred",
                      "the AST extractor sees the functions instantiated by harness/tsan/tsan.cpp; writes through pointers passed in by the caller would be classified by their root expression",
                      "libstdc++'s unordered_map::operator[] does not write when the key is present (not guaranteed by the standard)"]


check_C16.needs_hdyn = False


# ----------------------------------------------------------------------------------------------------
# C11 argument passing (generated programs) — also carries the smart-pointer glue of C09

KNOWN_C11 = ("nv cat=value-prvalue", "nv cat=value-xvalue", "nv cat=moveonly")


def check_C11(ck):
    import hprog
    policies = ["default"] if ck.tier == "quick" else ["default", "::yorel::yomm2::policy::debug", "::yorel::yomm2::policy::release"]
    cases = [(s, p) for s in hprog.SHAPES for p in policies]
    programs = [("args-%s-%d" % (s, i), hprog.prog_args(s, p)) for i, (s, p) in enumerate(cases)]
    scripts = [("args-%s-%d" % (s, i), ["thunk-expect " + s]) for i, (s, p) in enumerate(cases)]
    # several most derived classes through one definition on an intermediate class with a virtual base
    for p in policies:
        i = len(cases)
        cases.append(("vfork", p))
        programs.append(("args-vfork-%d" % i, hprog.prog_vfork(p)))
        scripts.append(("args-vfork-%d" % i, ["thunk-expect-fork"]))
    res = hprog.build_and_run(programs, jobs=16)
    model = verif.run_model(scripts)
    known = [k for k in verif.load_known() if k.get("property") == "C11" and k.get("status") == "open"]
    known_still = 0
    lines_compared = 0
    for (name, _), (s, p) in zip(scripts, cases):
        rc, so, se = res[name]
        got = so.splitlines()
        want = model.get(name, [])
        # the open known finding: by-value parameters moved more than once; compared separately
        def split(ls):
            return [l for l in ls if not l.startswith(KNOWN_C11)], [l for l in ls if l.startswith(KNOWN_C11)]
        g1, gk = split(got)
        w1, wk = split(want)
        lines_compared += len(g1)
        if rc != 0 or g1 != w1:
            if not ck.violations:
                diff = [x for x in zip(g1, w1) if x[0] != x[1]][:3]
                # a crash inside a call is a failing input too (the lines printed so far show where)
                found = rc is not None and (rc != 0 or bool(diff))
                path = verif.write_replay("C11", name, {
                    "last_lines_before_the_end": g1[-3:],
                    "property": "C11", "kind": ("failing input: a definition did not receive the caller's argument as specified" if found else
                                                "the generated program does not compile, crashed, or differs in shape from the model"),
                    "shape": s, "policy": p, "differences(program, required)": diff, "rc": rc, "stderr": se[-1500:],
                    "program": ("tools/hprog.py prog_vfork(%r)" % p) if s == "vfork" else ("tools/hprog.py prog_args(%r, %r)" % (s, p))})
                ck.violation(path, found)
        # known finding: by-value moves; anything else in those lines must still be as required
        for a, b in zip(gk, wk):
            a2 = re.sub(r"moves_le1=\d", "moves_le1=*", a)
            b2 = re.sub(r"moves_le1=\d", "moves_le1=*", b)
            if a2 != b2 and not ck.violations:
                path = verif.write_replay("C11", name + "-byvalue", {"property": "C11", "kind": "failing input: a by-value argument was copied or lost",
                                                                      "shape": s, "program_line": a, "required": b})
                ck.violation(path, True)
            if "moves_le1=0" in a:
                known_still += 1
                if not known and not ck.violations:
                    path = verif.write_replay("C11", name + "-moves", {"property": "C11", "kind": "failing input: an rvalue argument is moved more than once", "program_line": a})
                    ck.violation(path, True)
    if known and known_still:
        ck.known_observed = {k.get("witness") for k in known}
    ck.coverage = proof_coverage(ck, ["C11"], {
        "evaluations": len(cases), "distinct_nontrivial": len(cases), "programs": len(cases), "disagreements_checked": len(ck.violations),
        "rule": "one generated program per inheritance shape (single, second base at non-zero offset, virtual base, three levels, virtual + levels) x policy, plus one "
                "where objects of four most derived classes with different layouts go in turn through definitions on an intermediate class with a virtual base; each "
                "instantiates 12 methods with the virtual parameter kinds (reference, const reference, rvalue reference, pointer, shared_ptr, const shared_ptr&, "
                "virtual_ptr, virtual_shared_ptr by value and by const reference) at positions 0 and 1, and 6 methods with non-virtual categories (by value from "
                "prvalue / xvalue / lvalue, lvalue reference, rvalue reference, move-only, returned value and reference); inside the definitions the address as the "
                "definition's class, dynamic_cast<void*> (most derived object), shared ownership and copy / move counters are compared with the caller's",
        "observation_lines_compared": lines_compared, "known_finding_lines": known_still,
        "traces_validated_against_impl": len(cases),
        "samples": [{"shape": c[0], "policy": c[1]} for c in cases[:2]],
    })
    ck.assumptions = ["PARTIAL by nature: that static_cast / dynamic_cast adjust addresses correctly is the C++ compiler's semantics, observed per program, not proved",
                      "by-value parameters: see the open known finding (moved once per call boundary)"]


check_C11.needs_hdyn = False
