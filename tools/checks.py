"""Per-property checks (DESIGN.md section 5). Each check builds script batteries, runs them through
the implementation and the model, and on disagreement searches for a failing input."""
import itertools
import json
import os
import random
import re

import gen
import verif
from verif import Check, log

CORPUS = os.path.join(verif.VERIF, "corpus")


def tier_n(ck, quick, thorough):
    return thorough if ck.tier == "thorough" else quick


def load_corpus(prop):
    """scripts kept from past disagreements / defect witnesses: corpus/<prop>/*.txt"""
    d = os.path.join(CORPUS, prop)
    out = []
    if os.path.isdir(d):
        for f in sorted(os.listdir(d)):
            if f.endswith(".txt"):
                lines = [l.rstrip("\n") for l in open(os.path.join(d, f)) if l.strip() and not l.startswith("#")]
                out.append(("corpus-" + f[:-4], lines))
    return out


def strip_dump(scripts):
    return [(n, [l for l in ls if l.strip() != "dump"]) for n, ls in scripts]


def obligations(ck, prefix):
    """property theorems of this check, from the audit"""
    names = sorted(n for n in ck.lean.theorems if n.startswith("Yomm2.Props." + prefix + "."))
    return names


def proof_coverage(ck, prefixes, extra=None):
    names = []
    for p in prefixes:
        names += obligations(ck, p)
    cov = {
        "obligations": len(names),
        "discharged": len(names) if ck.lean.ok else 0,
        "checker_cmd": "cd /verif/lean && lake build && lake env lean Audit.lean   (run by tools/verif.py on every check)",
        "trusted_base": [
            "Lean 4.33.0 kernel",
            "axioms used: " + ", ".join(sorted({a for n in names for a in ck.lean.theorems.get(n, [])}) or ["none"]),
            "hand-written model Yomm2/Model/*.lean tied to /repo by the differential correspondence of this run",
            "harness/dyn (H-dyn), tools/gen.py generators, tools/verif.py diff",
        ],
        "theorems": names,
    }
    if extra:
        cov.update(extra)
    return cov


def correspondence(ck, scripts, what, oracle=True, extra_oracle=None):
    """run scripts through implementation and model; on mismatch search for a failing input.
    Returns (impl_out, model_out, n_bad)"""
    impl_out, model_out, bad, err = verif.run_pair(ck.exe, scripts)
    if not bad:
        return impl_out, model_out, 0
    log("%d of %d scripts disagree (%s); searching for a failing input" % (len(bad), len(scripts), what))
    by_name = dict(scripts)
    found = None
    if oracle:
        cand = strip_dump([(b[0], by_name[b[0]]) for b in bad[:40]])
        obad = verif.oracle_check(ck.exe, cand)
        if obad:
            name = obad[0][0]
            lines = dict(cand)[name]

            def still(ls):
                return bool(verif.oracle_check(ck.exe, [(name, ls)]))
            small = verif.shrink(lines, still)
            o2 = verif.oracle_check(ck.exe, [(name, small)])
            found = (name, small, o2[0] if o2 else obad[0])
    if found is None and extra_oracle:
        found = extra_oracle(bad, by_name, impl_out)
    if found:
        name, small, detail = found
        path = verif.write_replay(ck.prop, name, {
            "property": ck.prop, "kind": "failing input (implementation differs from the specification oracle)",
            "seed": ck.seed, "script": small,
            "implementation": detail[2] if len(detail) > 2 else None,
            "specification": detail[3] if len(detail) > 3 else None,
            "how_to_replay": "python3 tools/verif.py replay <this file>",
        })
        ck.violation(path, True)
    else:
        name, i, a, b = bad[0]
        path = verif.write_replay(ck.prop, name, {
            "property": ck.prop,
            "kind": "correspondence broken: implementation and model differ; no call was found on which the implementation violates the specification",
            "correspondence": what, "seed": ck.seed, "script": by_name[name],
            "first_difference": {"line": i, "implementation": a, "model": b},
            "disagreeing_scripts": len(bad), "scripts": len(scripts),
            "theorems_concerned": obligations(ck, ck.prop),
        })
        ck.violation(path, False)
    return impl_out, model_out, len(bad)


def count_lines(outs, prefix):
    return sum(1 for ls in outs.values() for l in ls if l.startswith(prefix))


# ----------------------------------------------------------------------------------------------------
# the dispatch family: C01 C02 C03 C04 C06 C08 C17

def gen_dispatch_scripts(ck, n, policies=None, styles=None, shapes=None, emphasis=None, dump=True, callnext=True):
    rng = random.Random(ck.seed * 7919 + hash(ck.prop) % 1000)
    rng = random.Random((ck.seed, ck.prop, "dispatch").__repr__())
    scripts, stats = [], []
    for i in range(n):
        pol = rng.choice(policies or gen.POLICIES)
        kw = {}
        if emphasis == "lattice":
            reg = gen.gen_registry(rng, shapes=shapes)
            while not any(len(p) > 1 for p in reg.parents) and rng.random() < 0.8:
                reg = gen.gen_registry(rng, shapes=shapes)
        elif emphasis == "multi":
            reg = gen.gen_registry(rng, shapes=shapes or ["VV", "PV", "VNV", "NVVN", "VVV", "VPNV", "VVVV", "PP"], max_defs=8)
        elif emphasis == "abstract":
            reg = gen.gen_registry(rng, shapes=shapes, abstract_p=0.45)
        else:
            reg = gen.gen_registry(rng, shapes=shapes)
        style = rng.choice(styles or gen.STYLES)
        lines, meta = gen.emit_script(rng, reg, pol, style=style, dump=dump, callnext=callnext)
        name = "g%d-%s-%s-%s" % (i, pol, style, reg.family)
        scripts.append((name, lines))
        st = reg.stats()
        st.update(policy=pol, style=style, calls=meta["calls"])
        stats.append(st)
    return scripts, stats


def distribution(stats, impl_out):
    d = {
        "registries": len(stats),
        "with_multiple_inheritance": sum(1 for s in stats if s["multi_inheritance"]),
        "by_family": {}, "by_policy": {}, "by_style": {}, "by_max_arity": {},
        "classes_hist": {}, "calls": sum(s["calls"] for s in stats),
    }
    for s in stats:
        for k, f in (("by_family", "family"), ("by_policy", "policy"), ("by_style", "style"), ("by_max_arity", "max_arity"), ("classes_hist", "classes")):
            d[k][str(s[f])] = d[k].get(str(s[f]), 0) + 1
    ran = ni = amb = 0
    for ls in impl_out.values():
        for l in ls:
            if l.startswith("ran ") and not l.startswith("ran ["):
                ran += 1
            elif "status=ni" in l:
                ni += 1
            elif "status=amb" in l:
                amb += 1
    d["call_outcomes"] = {"ran": ran, "not_implemented": ni, "ambiguous": amb}
    return d


def nontrivial_registries(stats, impl_out, scripts):
    """distinct scripts with >= 1 unique, >= 1 error outcome"""
    seen = set()
    n = 0
    for name, lines in scripts:
        out = impl_out.get(name, [])
        has_ran = any(l.startswith("ran ") and not l.startswith("ran [") for l in out)
        has_err = any("raised resolution" in l for l in out)
        key = "\n".join(l for l in lines if not l.startswith("policy"))
        if has_ran and has_err and key not in seen:
            seen.add(key)
            n += 1
    return n


def parse_dump(lines):
    """classes / methods of the last dump in an output"""
    classes, methods = [], []
    for l in lines:
        m = re.match(r"class (\d+) ids=\[(.*?)\] abs=(\d) tb=\[(.*?)\] direct=\[(.*?)\] derived=\[(.*?)\] cov=\[(.*?)\] first=(\d+) vp=(-?\d+) vtbl=\[(.*?)\]", l)
        if m:
            f = lambda s: [int(x) for x in s.split(",") if x]
            classes.append({"i": int(m.group(1)), "ids": f(m.group(2)), "abs": int(m.group(3)), "tb": f(m.group(4)),
                            "direct": f(m.group(5)), "derived": f(m.group(6)), "cov": f(m.group(7)), "first": int(m.group(8)),
                            "vp": int(m.group(9)), "vtbl": [tuple(int(y) for y in x.split(".")) for x in m.group(10).split(",") if x]})
        m = re.match(r"method (-?\d+) slots=\[(.*?)\] strides=\[(.*?)\] table=\[(.*?)\] next=\[(.*?)\] report=(.*)", l)
        if m:
            f = lambda s: [int(x) for x in s.split(",") if x]
            methods.append({"key": int(m.group(1)), "slots": f(m.group(2)), "strides": f(m.group(3)), "table": m.group(4).split(",") if m.group(4) else [],
                            "next": m.group(5).split(",") if m.group(5) else [], "report": f(m.group(6))})
    return classes, methods


def certificate_c04(classes, methods, cov_of_vp):
    """C04 on a dump: every (method, param) applicable to a class has its own in-range cell"""
    problems = []
    for c in classes:
        owners = {}
        for mi, m in enumerate(methods):
            for p, slot in enumerate(m["slots"]):
                if c["i"] in cov_of_vp.get((mi, p), []):
                    idx = slot - c["first"]
                    if idx < 0 or idx >= len(c["vtbl"]):
                        problems.append("class %d: slot %d of (%d,%d) outside its v-table" % (c["i"], slot, mi, p))
                        continue
                    if idx in owners:
                        problems.append("class %d: cell %d shared by %s and %s" % (c["i"], slot, owners[idx], (mi, p)))
                    owners[idx] = (mi, p)
                    e = c["vtbl"][idx]
                    if (e[0], e[1]) != (mi, p):
                        problems.append("class %d: cell %d holds %s, expected (%d,%d)" % (c["i"], slot, e, mi, p))
    return problems


def check_dispatch_family(ck, n_quick, n_thorough, what, **kw):
    n = tier_n(ck, n_quick, n_thorough)
    scripts = load_corpus(ck.prop) + load_corpus("dispatch")
    gscripts, stats = gen_dispatch_scripts(ck, n, **kw)
    scripts += gscripts
    impl_out, model_out, nbad = correspondence(ck, scripts, what)
    # the implementation against the specification oracle directly, on a slice
    k = max(50, len(gscripts) // 4)
    obad = verif.oracle_check(ck.exe, strip_dump(gscripts[:k]))
    if obad and not ck.violations:
        name = obad[0][0]
        lines = dict(strip_dump(gscripts))[name]
        small = verif.shrink(lines, lambda ls: bool(verif.oracle_check(ck.exe, [(name, ls)])))
        path = verif.write_replay(ck.prop, name, {"property": ck.prop, "kind": "failing input (implementation differs from the specification oracle)",
                                                   "seed": ck.seed, "script": small, "detail": obad[0][1:]})
        ck.violation(path, True)
    crashes = [n_ for n_, ls in impl_out.items() if any(l.startswith(("!signal", "!exit")) for l in ls)]
    return scripts, gscripts, stats, impl_out, model_out, crashes


def std_evidence(ck, prefixes, scripts, gscripts, stats, impl_out, extra=None):
    dist = distribution(stats, impl_out)
    cov = proof_coverage(ck, prefixes, {
        "evaluations": len(scripts),
        "distinct_nontrivial": nontrivial_registries(stats, impl_out, scripts),
        "rule": "scripts = corpus + registries drawn by tools/gen.py (class DAG family x presentation style x policy x "
                "shapes, shuffled registration order), each followed by update, a dump of every table and a sweep of "
                "calls; non-trivial = distinct script on which at least one call ran a definition and at least one "
                "raised a resolution error; every canonical line must be equal between implementation and model",
        "traces_validated_against_impl": len(scripts),
        "input_distribution": dist,
        "samples": [{"name": n, "script": ls[:60]} for n, ls in gscripts[:2]],
    })
    if extra:
        cov.update(extra)
    ck.coverage = cov
    ck.assumptions = [
        "the model mirrors detail/compiler.hpp, core.hpp and the policy headers by hand; the tie is the exact "
        "line-by-line agreement measured in this run (differential testing, as wide as the generators)",
        "class registrations are acyclic (guaranteed by C++ inheritance)",
        "std::sort is modelled as insertion sort (libstdc++, at most 16 listed bases per class)",
    ]


def check_C01(ck):
    r = check_dispatch_family(ck, 1200, 20000, "C01: tables, slots, dispatch data and every call outcome")
    std_evidence(ck, ["C01"], *r[:5])


def check_C03(ck):
    r = check_dispatch_family(ck, 800, 12000, "C03: next cells after update and next chains followed from calls",
                              emphasis="multi")
    scripts, gscripts, stats, impl_out, model_out, crashes = r
    std_evidence(ck, ["C03"], scripts, gscripts, stats, impl_out,
                 {"next_chains_followed": count_lines(impl_out, "ran [")})


def check_C04(ck):
    r = check_dispatch_family(ck, 1000, 15000, "C04: slots, first slots, v-table entries, dispatch data layout; ASan on every read",
                              emphasis="lattice")
    scripts, gscripts, stats, impl_out, model_out, crashes = r
    # the statement of C04 evaluated directly on the implementation's dumps
    checked = 0
    for name, lines in scripts:
        classes, methods = parse_dump(impl_out.get(name, []))
        if not classes:
            continue
        # cov of each method parameter from the script
        vp = {}
        id_to_class = {}
        for c in classes:
            for i in c["ids"]:
                id_to_class[i] = c
        mi = 0
        order = [int(l.split()[1]) for l in impl_out.get(name, []) if l.startswith("method ")]
        decl = {}
        for l in lines:
            t = l.split()
            if t and t[0] == "method":
                decl[int(t[1])] = [int(x) for x in t[3:]]
        cov = {}
        for mi, key in enumerate(order):
            for p, cid in enumerate(decl.get(key, [])):
                if cid in id_to_class:
                    cov[(mi, p)] = id_to_class[cid]["cov"]
        probs = certificate_c04(classes, methods, cov)
        checked += 1
        if probs and not ck.violations:
            path = verif.write_replay(ck.prop, name, {"property": "C04", "kind": "failing input: v-table cells not exclusive / out of range in the implementation's own tables",
                                                       "script": lines, "problems": probs[:10]})
            ck.violation(path, True)
    if crashes and not ck.violations:
        name = crashes[0]
        path = verif.write_replay(ck.prop, name, {"property": "C04", "kind": "failing input: the implementation crashed or a sanitizer fired",
                                                   "script": dict(scripts)[name], "output": impl_out[name][-5:]})
        ck.violation(path, True)
    std_evidence(ck, ["C04"], scripts, gscripts, stats, impl_out, {"dumps_checked_for_exclusive_cells": checked})


def permutations_of(rng, lines, k):
    """k registration orders of the same script (class/method/def lines permuted, defs after methods)"""
    head = [l for l in lines if l.split()[0] in ("policy", "budget", "static")]
    regs = [l for l in lines if l.split()[0] in ("class", "method")]
    defs = [l for l in lines if l.split()[0] == "def"]
    tail = [l for l in lines if l.split()[0] not in ("policy", "budget", "static", "class", "method", "def")]
    out = []
    for _ in range(k):
        r, d = regs[:], defs[:]
        rng.shuffle(r)
        rng.shuffle(d)
        out.append(head + r + d + tail)
    return out


def observables(lines):
    return [l for l in lines if l.startswith(("ran", "raised", "!"))]


def check_C06(ck):
    rng = random.Random(repr((ck.seed, "C06")))
    n = tier_n(ck, 250, 4000)
    base, stats = gen_dispatch_scripts(ck, n, dump=True, emphasis="multi")
    scripts = load_corpus("C06")
    groups = []
    for (name, lines), st in zip(base, stats):
        perms = permutations_of(rng, lines, 4)
        names = []
        for j, p in enumerate(perms):
            scripts.append(("%s-perm%d" % (name, j), p))
            names.append("%s-perm%d" % (name, j))
        groups.append(names)
    impl_out, model_out, nbad = correspondence(ck, scripts, "C06: every registration order agrees with the model")
    differing = 0
    for names in groups:
        obs = [observables(impl_out.get(nm, [])) for nm in names]
        if any(o != obs[0] for o in obs[1:]):
            differing += 1
            if not ck.violations:
                j = [k for k, o in enumerate(obs) if o != obs[0]][0]
                a, b = dict(scripts)[names[0]], dict(scripts)[names[j]]
                i = [k for k, (x, y) in enumerate(zip(obs[0], obs[j])) if x != y]
                path = verif.write_replay("C06", names[0], {"property": "C06", "kind": "failing input: two registration orders of one registry give different call / next results",
                                                             "order_a": a, "order_b": b, "first_difference": [obs[0][i[0]], obs[j][i[0]]] if i else None})
                ck.violation(path, True)
    big = stats * 1
    std_evidence(ck, ["C06"], scripts, scripts[:2], [s for s in stats for _ in range(4)], impl_out,
                 {"registries": len(base), "orders_per_registry": 4, "groups_with_differing_observables": differing})


def check_C08(ck):
    rng = random.Random(repr((ck.seed, "C08")))
    n = tier_n(ck, 250, 4000)
    scripts, stats_all, groups = load_corpus("C08"), [], []
    for i in range(n):
        pol = rng.choice(gen.POLICIES)
        reg = gen.gen_registry(rng)
        while not any(len(p) > 1 for p in reg.parents) and rng.random() < 0.7:
            reg = gen.gen_registry(rng)
        ids = gen.make_ids(rng, len(reg.parents), pol)
        names = []
        state = rng.getstate()
        for style in gen.STYLES:
            r2 = random.Random(repr((ck.seed, i)))  # same calls in every presentation
            lines, meta = gen.emit_script(r2, reg, pol, style=style, ids=ids, shuffle=False, callnext=True)
            nm = "p%d-%s-%s-%s" % (i, pol, reg.family, style)
            scripts.append((nm, lines))
            names.append(nm)
            st = reg.stats()
            st.update(policy=pol, style=style, calls=meta["calls"])
            stats_all.append(st)
        groups.append(names)
    impl_out, model_out, nbad = correspondence(ck, scripts, "C08: every presentation of the base lists agrees with the model")
    differing = 0
    for names in groups:
        obs = [observables(impl_out.get(nm, [])) for nm in names]
        if any(o != obs[0] for o in obs[1:]):
            differing += 1
            if not ck.violations:
                j = [k for k, o in enumerate(obs) if o != obs[0]][0]
                path = verif.write_replay("C08", names[0], {"property": "C08", "kind": "failing input: two presentations of one inheritance graph dispatch differently",
                                                             "presentation_a": dict(scripts)[names[0]], "presentation_b": dict(scripts)[names[j]]})
                ck.violation(path, True)
    std_evidence(ck, ["C08"], scripts, scripts[:2], stats_all, impl_out,
                 {"graphs": n, "presentations_per_graph": len(gen.STYLES), "groups_with_differing_observables": differing})


def check_C17(ck):
    r = check_dispatch_family(ck, 1000, 15000, "C17: per-method and aggregated update report", emphasis="abstract")
    scripts, gscripts, stats, impl_out, model_out, crashes = r
    std_evidence(ck, ["C17"], scripts, gscripts, stats, impl_out,
                 {"reports_compared": count_lines(impl_out, "report ")})


def check_C02(ck):
    r = check_dispatch_family(ck, 800, 12000, "C02: error status, arity and type ids; later calls after a thrown error")
    scripts, gscripts, stats, impl_out, model_out, crashes = r
    # handler returns -> abort (one child per script)
    rng = random.Random(repr((ck.seed, "C02-abort")))
    ab = []
    for i in range(tier_n(ck, 60, 600)):
        pol = rng.choice(["fast", "checked", "indirect", "backward", "proj"])
        reg = gen.gen_registry(rng)
        lines, meta = gen.emit_script(rng, reg, pol, dump=False, callnext=False)
        k = lines.index("update")
        lines = lines[:k + 1] + ["handler return"] + lines[k + 1:]
        ab.append(("abort%d-%s" % (i, pol), lines))
    io2, mo2, nb2 = correspondence(ck, ab, "C02: a returning handler aborts the program")
    aborted = sum(1 for ls in io2.values() if "!signal 6" in ls)
    std_evidence(ck, ["C02"], scripts + ab, gscripts, stats, impl_out,
                 {"scripts_with_returning_handler": len(ab), "of_which_aborted": aborted})


# ----------------------------------------------------------------------------------------------------
# C18 static_list

def list_histories(nodes, length):
    """all valid op sequences up to `length` over `nodes` nodes"""
    out = []

    def rec(seq, linked):
        if seq:
            out.append(seq)
        if len(seq) == length:
            return
        for n in range(1, nodes + 1):
            if n in linked:
                rec(seq + [("lremove", n)], [x for x in linked if x != n])
            else:
                rec(seq + [("lpush", n)], linked + [n])
        rec(seq + [("lclear", 0)], [])
    rec([], [])
    return out


def list_script(seq, nodes):
    lines = []
    for op, n in seq:
        lines.append(op if op == "lclear" else "%s %d" % (op, n))
        lines.append("ldump %d" % nodes)
    return lines


def abstract_list(seq):
    cur, states = [], []
    for op, n in seq:
        if op == "lpush":
            cur = cur + [n]
        elif op == "lremove":
            cur = [x for x in cur if x != n]
        else:
            cur = []
        states.append(list(cur))
    return states


def check_C18(ck):
    rng = random.Random(repr((ck.seed, "C18")))
    seqs = list_histories(3, tier_n(ck, 6, 7)) + list_histories(4, tier_n(ck, 5, 6))
    # only maximal histories are needed (every prefix is dumped), keep those of full length plus random long ones
    full = [s for s in seqs if len(s) >= (5 if ck.tier == "quick" else 6)]
    for i in range(tier_n(ck, 300, 5000)):
        nodes, linked, seq = rng.randint(2, 12), [], []
        for _ in range(rng.randint(8, 60)):
            r = rng.random()
            free = [n for n in range(1, nodes + 1) if n not in linked]
            if r < 0.05:
                seq.append(("lclear", 0)); linked = []
            elif (r < 0.55 and free) or not linked:
                n = rng.choice(free) if free else None
                if n is None:
                    continue
                seq.append(("lpush", n)); linked.append(n)
            else:
                # first / middle / last / only
                k = rng.choice([0, len(linked) - 1, rng.randrange(len(linked))])
                seq.append(("lremove", linked[k])); linked.pop(k)
        full.append(seq)
    scripts = load_corpus("C18")
    meta = {}
    for i, seq in enumerate(full):
        nodes = max([n for _, n in seq] + [3])
        name = "l%d" % i
        scripts.append((name, list_script(seq, nodes)))
        meta[name] = seq

    def list_oracle(bad, by_name, impl_out):
        for name, *_ in bad:
            if name not in meta:
                continue
            exp = abstract_list(meta[name])
            got = [l for l in impl_out.get(name, []) if l.startswith("list ")]
            for k, e in enumerate(exp):
                want = "list [%s] size=%d empty=%d" % (",".join(map(str, e)), len(e), 0 if e else 1)
                if k >= len(got) or not got[k].startswith(want + " "):
                    ops = list_script(meta[name][:k + 1], 0)
                    return (name, ops, (name, k, got[k] if k < len(got) else "<crash>", want))
        return None
    impl_out, model_out, nbad = correspondence(ck, scripts, "C18: enumeration, size, emptiness and every link field after every operation",
                                               oracle=False, extra_oracle=list_oracle)
    kinds = {"first": 0, "middle": 0, "last": 0, "only": 0}
    for seq in full:
        cur = []
        for op, n in seq:
            if op == "lremove":
                i = cur.index(n)
                kinds["only" if len(cur) == 1 else "first" if i == 0 else "last" if i == len(cur) - 1 else "middle"] += 1
                cur.pop(i)
            elif op == "lpush":
                cur.append(n)
            else:
                cur = []
    ck.coverage = proof_coverage(ck, ["C18"], {
        "evaluations": len(scripts),
        "distinct_nontrivial": len({repr(s) for s in full if any(o == "lremove" for o, _ in s)}),
        "rule": "histories of push / remove / clear over a pool of static nodes: every valid sequence up to the tier's length over 3 and 4 nodes "
                "(exhaustive), plus random histories of 8-60 operations over 2-12 nodes; after every operation the enumeration, size(), empty() "
                "and both link fields of every node are compared with the model; non-trivial = distinct history containing a removal",
        "exhaustive_small_scope": {"nodes3_max_len": tier_n(ck, 6, 7), "nodes4_max_len": tier_n(ck, 5, 6)},
        "removal_kinds": kinds,
        "traces_validated_against_impl": len(scripts),
        "samples": [{"name": n, "script": ls[:30]} for n, ls in scripts[-2:]],
    })
    ck.assumptions = ["registration nodes live in zero-initialised static storage (documented requirement of the library)",
                      "the heap model identifies nodes by number; pointer identity of distinct static objects is assumed"]


check_C18.needs_hdyn = True
