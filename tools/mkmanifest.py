#!/usr/bin/env python3
"""Writes MANIFEST.json from the table below (kept in one place so that it stays consistent)."""
import json, os, subprocess
VERIF = os.path.dirname(os.path.dirname(os.path.abspath(__file__)))
props = [json.loads(l) for l in open(os.path.join(VERIF, "properties.jsonl"))]

NOTE_COMMON = ("Trusted: Lean 4.33.0 kernel; axioms propext / Quot.sound / Classical.choice only (audited on every run); "
               "the hand-written model in lean/Yomm2/Model (tied to /repo by the exact differential correspondence run by this check: "
               "H-dyn harness built from /repo's working tree with ASan+UBSan vs the compiled Lean driver, one line protocol); "
               "tools/gen.py generators; the C++ compiler for template glue. ")

CHECKS = {
 "C01": ("proof", "5.1",
   "Theorem C01_C02_call_after_update (Lean, no sorry, axioms propext/Classical.choice/Quot.sound): for every policy flavour (vector, fast hash, checked hash, map), every registry without inheritance cycles whose ids are machine words, every registered method (any arity, any placement of non-virtual parameters) and every tuple of registered classes acceptable for its virtual parameters passed by reference: after an update that succeeded, the model's call looks up the published v-table pointers, walks the installed dispatch data and runs exactly the definition the specification Selects for the classes' keys - the one more specific than every other applicable one - or raises the prescribed resolution error. It composes: covariant sets = Derives (cov_iff_derives), table cell = Selects (dispatch_table_correct), slot allocation exclusive for trees, lattices and mixtures (assignSlots_exclusive / compile_slots_exclusive), v-table content (vtbl_entry), flattening (install_spec), the walk (resolve_correct), publication of v-table pointers (lookup_published, using the hash-search theorems of C05). The specification is functional and decided by the executable oracle (spec_functional, oracle_decides). Tie to the code: on every run every table, slot, word of dispatch_data and every call outcome of ~1200 generated registries (12 signature shapes, 8 policy configurations, 5 presentation styles, some registered in two instalments with an update after each) must be equal between the real update/call and the model, and the real calls equal to the specification oracle. Not covered by the theorem: virtual_ptr arguments (C09), how C++ objects yield type ids (C10/C11).",
   "end-to-end proof on the model (update -> call = specification) + differential correspondence of the whole pipeline"),
 "C02": ("proof", "5.2",
   "Theorems: C02_unresolvable_calls_are_reported (corollary of the end-to-end theorem C01_C02_call_after_update): after a successful update, whenever the specification finds no applicable definition, or no applicable definition more specific than all the others, the model's call runs nothing and raises a resolution error whose status tells the two cases apart, whose arity is the number of virtual parameters and whose type ids are the dynamic types of exactly the virtual arguments in order - for every policy flavour, arity and placement of non-virtual parameters. Also: errorTypes_* (payload), status_of_cell, an error cell never runs a definition. Correspondence: status/arity/types of every erroring call under vectored, throwing and deprecated handlers, further calls after a thrown error, SIGABRT when the handler returns (forked child).",
   "end-to-end proof on the model + differential correspondence incl. handler and abort behaviour"),
 "C03": ("proof", "5.3", "Theorems: best returns a single definition iff it dominates all other candidates, and is empty only for no candidates (best_of_dominates, dominates_of_best, best_nil_iff), for any asymmetric specificity relation. "
   "Correspondence: every definition's next cell after every update and next chains followed from inside definitions; the spec oracle nextB recomputes them from the registry.",
   "proof of best() + differential correspondence of next cells and chains"),
 "C04": ("proof", "5.4",
   "Theorems: compile_slots_exclusive - after update on any registry without inheritance cycles (trees, lattices, several roots, any mixture, any presentation of the base lists), two different (method, virtual parameter) pairs whose parameter classes both cover a class never share a slot (invariant SInvK kept by assign_tree_slots by windows stacked along the ancestor chain, by assign_lattice_slots via the used/reserved bit sets, across roots by a visited-set argument); vtbl_entry - the v-table of every class acceptable for a parameter holds at that slot the entry (method, parameter, group of the class), whatever else was written; C01_update_then_call - the walk of a legal call succeeds, hence (read_in_bounds) every word it reads lies inside the words this update wrote; call_runs_only_functions - a call jumps only through a function-tagged word of the same method. Correspondence: slots, first slots, v-table entries, dispatch_data size and layout; ASan + UBSan on the real update and walk (a crash or abort of the real code where the model completes is reported as the failing input); the statement of C04 re-evaluated on every dump. C04_update_stays_in_bounds: compile and install, whose every out-of-range access is a fault in the model, succeed on every registry without inheritance cycles or stop for a documented reason (unknown class, definition of the wrong arity); C04_slot_inside_vtable: first slot <= slot < first slot + size for every class a slot can be read through; C04_reads_inside_dispatch_data: the words written fit in dispatch_data as sized by the same update.",
   "invariant proof of both slot allocators and of the v-table content + differential correspondence + sanitizers"),
 "C05": ("proof", "5.5",
   "Theorems, for every multiplier stream, id lists, initial hash_min/max and budget: if the search returns found, every registered id has its own index below the installed length and its bucket holds the id (C05_installed_hash_is_perfect), no unregistered id is in any bucket (C05_buckets_hold_only_registered), and the checked lookup rejects every unregistered id (C05_checked_rejects_unregistered; the reserved all-ones id excluded); lookup_published - after a successful publish_vptrs every id registered for class c is found and yields the entry this update wrote for c, for the plain vector, the fast hash, the checked hash and the map. Correspondence: multiplier, shift, length, min, max, control, vptrs over id families, sizes 0-300 (2000 thorough), growing/shrinking update histories, exhausted budgets through the hook; a direct lookup battery of registered and formerly registered ids.",
   "fold-invariant proof of the hash search and of publication + differential correspondence with the implementation's own multiplier stream"),
 "C06": ("proof", "5.6", "Theorems (specification level): the selected definition, the not-implemented outcome, applicability and specificity depend only on the sets of class records and definitions (C06_selected_perm, C06_not_implemented_perm). "
   "Correspondence: each registry in 4 registration orders; observables must be equal across orders and each order equal to the model. C06_outcome_perm: the whole outcome (selected / not implemented / ambiguous) is independent of the order of class records and definitions; C06_call_order_independent (model level, via the end-to-end theorem of C01): two programs differing only in the order of registration make the same call do the same thing.",
   "proof on the specification + permutation differential testing"),
 "C07": ("proof", "5.7", "Theorems: a completed update installs exactly what a fresh compile+install of the current catalogs produces, independently of every persistent table (update_installs_fresh, tables_depend_on_catalogs_only); removed definitions are gone from the catalog, added ones present; C07_after_any_history: after a successful update a call does what the specification prescribes for the registrations live now, whatever persistent state the history left (the end-to-end theorem quantifies over every state). "
   "Correspondence: random load/unload histories under 9 flavours incl. deferred ids, each compared with the model and with a fresh process holding the surviving registrations.",
   "refinement-style proof on the state machine + history differential testing"),
 "C08": ("proof", "5.8",
   "Theorems: every outcome and the next candidates depend on the registry only through Derives (C08_selects_congr, C08_moreGeneral_congr); listing a derivable base redundantly leaves Derives unchanged; the model infers the inheritance relation from any presentation (model_infers_inheritance = cov_iff_derives), transitive_bases are complete for every presentation (graph_complete), C08_call_presentation_independent (model level): two programs describing the same inheritance relation with the same definitions make the same call do the same thing; cells stay exclusive for every presentation (compile_slots_exclusive). Correspondence: each graph under 5 presentations (complete, direct-only, supersets with duplicates, split records, without self), each also with the records in random order (derived classes before their bases), equal observables and exact agreement with the model.",
   "proof on specification and model + presentation / record-order differential testing"),
 "C09": ("proof", "5.9", "Theorems on the model of virtual_ptr: a pointer made from a reference dereferences to what a plain reference lookup yields (deref_new_direct), copies dereference like the original, indirect pointers read the class's static cell in the state of the call and so survive updates (indirect_survives_update), direct ones fault after the next update. "
   "Correspondence: construction routes (base reference, exact static type, final, copy, move) under 8 policies, each call made through references and through virtual_ptrs, updates in between. PARTIAL: smart-pointer flavours are template glue, observed only by H-prog.",
   "proof on the pointer model + route differential testing"),
 "C10": ("proof", "5.10", "Theorems: deferred ids compile like identity ids, alias ids of a projection name the same class, every id of a record is collected into its class. Correspondence: the same abstract registry under six flavours (identity, projection with aliases, deferred, unhashed, map, unchecked), 1-3 updates, equal observables across flavours and exact agreement with the model. PARTIAL: std_rtti itself is exercised by H-prog only.",
   "proof on the id model + cross-flavour differential testing"),
 "C12": ("proof", "5.12", "Theorems: for every arity the printed slots and strides are position by position the installed ones (printed_eq_installed), and the text is built from those numbers. Correspondence: the real generator's text for arities 1-4 compared with the model's text and with the installed arrays.",
   "proof of the positional layout + text differential testing"),
 "C13": ("proof", "5.13", "Theorems: initialisers fit their extents, the stop bit marks exactly the last code, fetch faults rather than misreads once the write cursor has passed a code, writes stay inside vtbls[D]. Correspondence: the real encoder's text parsed and laid out in a heap block of the emitted struct's exact layout (ASan both ends), decoded in place by the real decoder; extents, streams, decoded words, v-table pointers and calls compared with the model and with the calls after update. C13_decode_encode_is_install: for every compiled registry whose numbers fit the 16-bit fields and that install accepts, decoding the emitted data in place rebuilds exactly the words install wrote into dispatch_data, the same v-table pointers and the same slots_strides (C13_vtables_round_trip: with the head room the encoder computes by replaying the decoder's cursors no code is read after a decoded word overwrote it and no word is written outside vtbls[D]; decodeDtbls_encode for the multi-method tables); resolve reads the image through data and ss only (resolve_depends_on_data_and_ss), so calls behave as after update. The size bounds (indices below 2^14 / 2^15) are hypotheses: the emitted fields are uint16_t.",
   "round-trip proof decode(encode c) = install c on the model + round-trip differential testing of the real encoder/decoder under ASan"),
 "C14": ("proof", "5.14", "Theorem: an operation on policy k leaves the whole state of every other policy unchanged, for any interleaving (frame, frame_seq, calls_unchanged). Correspondence: policies obtained by rebind sharing class ids, interleaved registrations/updates/calls (including virtual_ptr made from the class's static v-table pointer cell and final), dumps of the watched policy before and after. PARTIAL: that template instantiation gives each key its own statics is observed, not proved.",
   "frame proof on the multi-policy model + interleaving differential testing"),
 "C15": ("proof", "5.15", "Theorems: under the checked hash an id absent from the control table is reported as unknown_class on the reference route, the virtual_ptr route and the exact-static-type route (lookup_unknown, mkVPtr_unknown, mkVPtr_exact_unknown); final with another dynamic type is a method_table error; unknown parameter classes and listed bases are reported by update (resolveIds_unknown, buildGraph_unknown_base). Correspondence: one id left out at every place and route, and classes registered for one update and gone at the next (unknown with respect to the current tables on every route).",
   "proof on the checked lookup model + placement differential testing"),
 "C17": ("proof", "5.17", "Theorems: per-method counters count cells of each kind, a flag is raised iff such a cell exists, the aggregated report counts the methods raising each flag, cells equals the number of multi-method cells built (= product of group counts). Correspondence: exact per-method and aggregated reports with random abstract flags. PARTIAL: cell <-> class-tuple correspondence is part of the C01 chain.",
   "proof of the report arithmetic + differential correspondence"),
 "C18": ("proof", "5.18", "Theorems (complete): push_back, remove (only / last / first / middle) and clear refine append, erase and the empty list on a representation invariant over the link fields; hence after ANY valid history the catalog enumerates exactly the live items once, in order, with the right size and emptiness, and an unregistered item can be registered again (C18_histories, toList_eq, size_eq, empty_iff, reregister). Correspondence: all histories up to 6-7 operations over 3-4 nodes exhaustively and random long ones, every link field after every operation.",
   "refinement proof by induction over histories + exhaustive small-scope differential testing"),
 "C19": ("proof", "5.19", "Theorems: extracted names pass every filter (no keyword, no std::/yorel::, no template name), every fundamental token is in the keyword table re-extracted from the source, the name set is a set. Correspondence: text of the forward declarations for random name sets and grammar-generated type descriptions, character for character; the output is parsed for balance and compared with the requested set. PARTIAL: the writer's balance theorem is not yet closed.",
   "proof of the extraction filters + text differential testing"),
 "C11": ("proof", "5.11", "PARTIAL by nature. Theorems on the thunk's selection logic: parameter i is computed from argument i only, arity preserved, dynamic_cast chosen exactly when a virtual base makes static_cast ill formed, rvalues and references never copied. The decider is the generated-program check: per inheritance shape (single, non-zero offset, virtual base, several levels, virtual + levels) a program instantiates every virtual parameter kind at two positions and every non-virtual category, (and one program sends objects of four most derived classes with different layouts in turn through definitions on an intermediate class with a virtual base), and compares inside the definitions the address as the definition's class, the most-derived address, shared ownership and copy/move counters with the caller's. One open known finding (by-value parameters are moved more than once).",
   "proof of the selection logic + generated-program translation validation"),
 "C16": ("proof", "5.16", "PARTIAL by nature. Theorems: for every schedule in which other threads only operate on other policies every call returns its sequential result (C16_any_schedule, per_thread; uses the frame theorem of C14); accesses that are reads of shared state or touch thread-owned locations never conflict (no_conflict). Tie to the source, re-checked by the kernel on every run: the write-effect table of the instantiated call path extracted from clang's AST contains only writes to locals, to the object under construction, and map operator[] (callpath_effects_allowed). Support: TSan harness, 9-33 threads x 5 policies x every route with concurrent updates of two other policies, one obtained by rebind from a policy in use whose stateful facet carries a non-default template argument (re-keying checked); TSan reports and per-thread results.",
   "schedule-independence proof + AST effect table obligation + TSan"),
 "C20": ("proof", "5.20", "Theorems (complete on the model): product membership and length, aggregate/flatten identity for every size and threshold, leaves bounded by the threshold (termination of the template recursion), registered = product filtered by defined (C20_registered, C20_not_defined). Tie: generated programs (sizes 1..7 per list and products on both sides of the 512 split, random not_defined subsets) print the compile-time product, the definitions found in the method's catalog and the result of dispatching through every combination; the model predicts all three; aggregate alone over n trivial elements, n around every level of the split (odd and even), counts constructions per element. PARTIAL: the model of mp11 is hand-written.",
   "proof on the template model + generated-program translation validation"),
}

NOT_YET = {}

def main():
    commits = subprocess.run(["git", "-C", "/repo", "log", "--format=%h %s"], capture_output=True, text=True).stdout.splitlines()
    hooks = [c.split()[0] for c in commits if "verif hook" in c]
    checks = []
    for p in props:
        pid = p["id"]
        if pid not in CHECKS:
            continue
        cat, ref, text, tech = CHECKS[pid]
        checks.append({
            "property_id": pid,
            "quick_cmd": "python3 tools/verif.py check %s --tier quick" % pid,
            "thorough_cmd": "python3 tools/verif.py check %s --tier thorough" % pid,
            "evidence_file": "/verif/evidence/%s.json" % pid,
            "replay_cmd_template": "python3 tools/verif.py replay {path}",
            "engine": "lean-model+hdyn",
            "level_claimed": {"category": cat, "text": text, "design_ref": "DESIGN.md section " + ref},
            "level_note": NOTE_COMMON,
            "technique": tech,
        })
    m = {
        "version": 1,
        "setup_cmd": "python3 tools/verif.py setup",
        "hooks": {"guard": "YOMM2_VERIF", "enable": "harnesses compile /repo/include with -DYOMM2_VERIF (hash search attempt budget becomes a variable)",
                  "baseline_off_cmd": "bash tools/baseline.sh", "source_commits": hooks, "add_only": False},
        "engines": [{"name": "lean-model+hdyn", "path": "/verif/lean , /verif/harness/dyn , /verif/tools",
                     "serves_properties": sorted(CHECKS), "kind_free_text": "Lean 4 model + theorems, differential correspondence against the real headers"}],
        "checks": checks,
        "not_applicable": [{"property_id": k, "reason": v} for k, v in NOT_YET.items() if k not in CHECKS],
        "notes": "See DESIGN.md. Every check regenerates lean/Yomm2/Generated from /repo, rebuilds and audits the Lean library, rebuilds the harness from /repo's working tree, then runs corpus + generated scripts.",
    }
    json.dump(m, open(os.path.join(VERIF, "MANIFEST.json"), "w"), indent=1)
    print(len(checks), "checks")

if __name__ == "__main__":
    main()
