#!/bin/bash
# usage: seedrun.sh <patch.diff> <property> [tier]
# Runs one check against a scratch worktree of /repo with the patch applied. /repo itself is not touched and the
# evidence goes to a scratch directory, so what is committed under evidence/ always comes from /repo as it is.
# (Not to be run while another check is running: the Lean build directory and the generated files are shared.)
patch=$(readlink -f "$1"); prop=$2; tier=${3:-quick}
wt=/tmp/seedrun-$$; ev=/tmp/seedrun-ev-$$
git -C /repo worktree add --detach $wt HEAD -q || exit 2
git -C $wt apply "$patch" || { echo "patch does not apply"; git -C /repo worktree remove --force $wt; exit 2; }
mkdir -p $ev
cd "$(dirname "$0")/.."
VERIF_REPO=$wt VERIF_EVIDENCE_DIR=$ev python3 tools/verif.py check $prop --tier $tier 2>&1 | grep -E "^VIOLATION|^KNOWN-FINDING" | cut -c1-220
echo "rc=${PIPESTATUS[0]}"
git -C /repo worktree remove --force $wt; rm -rf $ev
python3 tools/extract.py >/dev/null 2>&1   # regenerate Generated/*.lean from /repo itself
