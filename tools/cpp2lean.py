#!/usr/bin/env python3
"""X-src: translate the member functions of detail/static_list.hpp into terms of the Lean language
`Yomm2.Mini` (lean/Yomm2/MiniCpp.lean), from clang's AST of their instantiation.

The translation is purely structural (one AST node kind = one constructor); it knows no semantics and
refuses any construct it has no constructor for, naming the construct and its source line. What the
constructors mean is `Mini.exec`, in Lean; that the translated bodies compute the hand-written model is
proved in lean/Yomm2/Proofs/SrcStaticList.lean and checked again on every run against the text of the
header as it is now.

Output: lean/Yomm2/Generated/StaticListSrc.lean (written only when its content changes)."""
import json
import os
import subprocess
import sys

HERE = os.path.dirname(os.path.abspath(__file__))
VERIF = os.path.dirname(HERE)
REPO = os.environ.get("VERIF_REPO", "/repo")
SRC = os.path.join(VERIF, "harness", "xlate", "static_list_inst.cpp")
OUT = os.path.join(VERIF, "lean", "Yomm2", "Generated", "StaticListSrc.lean")

FIELDS = {"prev_ptr": ".prev", "next_ptr": ".next"}
TRANSPARENT_CASTS = {"LValueToRValue", "UncheckedDerivedToBase", "DerivedToBase", "NoOp", "NullToPointer"}


class Refuse(Exception):
    pass


def stream(text):
    dec = json.JSONDecoder()
    i, n = 0, len(text)
    while i < n:
        while i < n and text[i].isspace():
            i += 1
        if i >= n:
            break
        obj, j = dec.raw_decode(text, i)
        yield obj
        i = j


def kids(n):
    return [c for c in (n.get("inner") or []) if isinstance(c, dict) and c]


def where(n):
    r = n.get("range", {}).get("begin", {})
    r = r.get("expansionLoc", r)
    return "line %s" % r.get("line", "?")


def refuse(n, why):
    raise Refuse("%s: %s (%s)" % (n.get("kind"), why, where(n)))


class Fn:
    """translation of one member function body"""

    def __init__(self, this_field_vars):
        # members of `*this` that are modelled as variables (the iterator's `ptr`)
        self.this_vars = this_field_vars
        self.decls = {}     # decl id -> name
        self.names = {}     # name -> decl id

    def declare(self, d):
        name, did = d.get("name"), d.get("id")
        if name in self.names and self.names[name] != did:
            refuse(d, "two declarations named " + name)
        self.names[name] = did
        self.decls[did] = name
        return name

    # ---- expressions of pointer type
    def pexpr(self, e):
        k = e.get("kind")
        if k in ("ImplicitCastExpr", "CXXStaticCastExpr") and e.get("castKind") in TRANSPARENT_CASTS:
            return self.pexpr(kids(e)[0])
        if k == "ParenExpr":
            return self.pexpr(kids(e)[0])
        if k == "CXXNullPtrLiteralExpr":
            return ".null"
        if k == "DeclRefExpr":
            d = e.get("referencedDecl", {})
            if d.get("kind") == "VarDecl" and d.get("id") in self.decls:
                return '.var "%s"' % self.decls[d["id"]]
            refuse(e, "reference to %s used as a pointer value" % d.get("name"))
        if k == "UnaryOperator" and e.get("opcode") == "&":
            inner = kids(e)[0]
            d = inner.get("referencedDecl", {})
            if inner.get("kind") == "DeclRefExpr" and d.get("kind") == "ParmVarDecl" and d.get("id") in self.decls:
                return '.var "%s"' % self.decls[d["id"]]      # the address of a reference parameter
            refuse(e, "address of something that is not a reference parameter")
        if k == "MemberExpr":
            return self.member(e)
        refuse(e, "not a pointer expression I know")

    def member(self, e):
        name, base = e.get("name"), kids(e)[0]
        while base.get("kind") == "ImplicitCastExpr" and base.get("castKind") in ("UncheckedDerivedToBase", "DerivedToBase", "NoOp"):
            base = kids(base)[0]
        if base.get("kind") == "CXXThisExpr":
            if name == "first" and not self.this_vars:
                return ".first"
            if name in self.this_vars:
                return '.var "%s"' % name
            refuse(e, "member %s of *this" % name)
        if name not in FIELDS:
            refuse(e, "member " + str(name))
        if e.get("isArrow"):
            return "(.fld (%s) %s)" % (self.pexpr(base), FIELDS[name])
        # node.f where node is a reference parameter: (&node)->f
        d = base.get("referencedDecl", {})
        if base.get("kind") == "DeclRefExpr" and d.get("kind") == "ParmVarDecl" and d.get("id") in self.decls:
            return '(.fld (.var "%s") %s)' % (self.decls[d["id"]], FIELDS[name])
        refuse(e, "member access on something that is neither a pointer nor a reference parameter")

    # ---- conditions
    def bexpr(self, e):
        k = e.get("kind")
        if k == "ParenExpr" or (k in ("ImplicitCastExpr", "CXXStaticCastExpr") and e.get("castKind") == "NoOp"):
            return self.bexpr(kids(e)[0])
        if k == "ImplicitCastExpr" and e.get("castKind") == "PointerToBoolean":
            return "(.truthy (%s))" % self.pexpr(kids(e)[0])
        if k == "UnaryOperator" and e.get("opcode") == "!":
            return "(.not %s)" % self.bexpr(kids(e)[0])
        if k == "BinaryOperator" and e.get("opcode") in ("==", "!="):
            a, b = kids(e)
            return "(%s (%s) (%s))" % (".eq" if e["opcode"] == "==" else ".ne", self.pexpr(a), self.pexpr(b))
        refuse(e, "not a condition I know")

    # ---- statements
    def stmt(self, s):
        k = s.get("kind")
        if k == "CompoundStmt":
            return self.seq([self.stmt(c) for c in kids(s)])
        if k == "NullStmt":
            return ".skip"
        if k == "ReturnStmt":
            if kids(s):
                refuse(s, "return with a value")
            return ".ret"
        if k == "DeclStmt":
            out = []
            for d in kids(s):
                if d.get("kind") != "VarDecl" or not kids(d):
                    refuse(d, "declaration without initialiser")
                init = self.pexpr(kids(d)[0])     # the initialiser is evaluated before the name is in scope
                out.append('(.setVar "%s" (%s))' % (self.declare(d), init))
            return self.seq(out)
        if k == "BinaryOperator" and s.get("opcode") == "=":
            lhs, rhs = kids(s)
            return self.assign(lhs, self.pexpr(rhs))
        if k == "IfStmt":
            cs = kids(s)
            if s.get("hasInit") or s.get("hasVar") or len(cs) not in (2, 3):
                refuse(s, "if with initialiser or condition variable")
            els = self.stmt(cs[2]) if len(cs) == 3 else ".skip"
            return "(.ite %s %s %s)" % (self.bexpr(cs[0]), self.stmt(cs[1]), els)
        if k == "WhileStmt":
            cs = kids(s)
            if len(cs) != 2:
                refuse(s, "while with a condition variable")
            return "(.while %s %s)" % (self.bexpr(cs[0]), self.stmt(cs[1]))
        if k == "ParenExpr":
            a = self.boost_assert(s)
            if a:
                return a
        refuse(s, "statement I have no constructor for")

    def assign(self, lhs, value):
        k = lhs.get("kind")
        if k == "DeclRefExpr":
            d = lhs.get("referencedDecl", {})
            if d.get("kind") == "VarDecl" and d.get("id") in self.decls:
                return '(.setVar "%s" (%s))' % (self.decls[d["id"]], value)
            refuse(lhs, "assignment to " + str(d.get("name")))
        if k == "MemberExpr":
            name, base = lhs.get("name"), kids(lhs)[0]
            while base.get("kind") == "ImplicitCastExpr" and base.get("castKind") in ("UncheckedDerivedToBase", "DerivedToBase", "NoOp"):
                base = kids(base)[0]
            if base.get("kind") == "CXXThisExpr":
                if name == "first" and not self.this_vars:
                    return "(.setFirst (%s))" % value
                if name in self.this_vars:
                    return '(.setVar "%s" (%s))' % (name, value)
                refuse(lhs, "assignment to member %s of *this" % name)
            if name not in FIELDS:
                refuse(lhs, "assignment to member " + str(name))
            if lhs.get("isArrow"):
                return "(.setFld (%s) %s (%s))" % (self.pexpr(base), FIELDS[name], value)
            d = base.get("referencedDecl", {})
            if base.get("kind") == "DeclRefExpr" and d.get("kind") == "ParmVarDecl" and d.get("id") in self.decls:
                return '(.setFld (.var "%s") %s (%s))' % (self.decls[d["id"]], FIELDS[name], value)
        refuse(lhs, "assignment target")

    def boost_assert(self, s):
        """((cond) ? (void)0 : __assert_fail(...)), the expansion of BOOST_ASSERT / assert"""
        inner = kids(s)
        if len(inner) != 1 or inner[0].get("kind") != "ConditionalOperator":
            return None
        c, a, b = kids(inner[0])
        names = []

        def walk(n):
            if n.get("kind") == "DeclRefExpr":
                names.append(n.get("referencedDecl", {}).get("name"))
            for x in kids(n):
                walk(x)
        walk(b)
        if "__assert_fail" not in names:
            return None
        if not (a.get("kind") == "CXXFunctionalCastExpr" and a.get("castKind") == "ToVoid"):
            return None
        return "(.assert %s)" % self.bexpr(c)

    @staticmethod
    def seq(parts):
        if not parts:
            return ".skip"
        out = parts[-1]
        for p in reversed(parts[:-1]):
            out = "(.seq %s %s)" % (p, out)
        return out


# ------------------------------------------------------------------------------------------------
# the comparison loops of detail/compiler.hpp  ->  Yomm2.Sel

COMPILER_TOPS = []
SRC_COMPARE = os.path.join(VERIF, "harness", "xlate", "compiler_inst.cpp")
OUT_COMPARE = os.path.join(VERIF, "lean", "Yomm2", "Generated", "CompareSrc.lean")
WRAPPERS = {"ParenExpr", "MaterializeTemporaryExpr", "ExprWithCleanups", "CXXBindTemporaryExpr"}
SEL_CASTS = {"NoOp", "DerivedToBase", "UncheckedDerivedToBase", "LValueToRValue", "ConstructorConversion"}


def unwrap(e):
    while True:
        k = e.get("kind")
        if k in WRAPPERS or (k == "ImplicitCastExpr" and e.get("castKind") in SEL_CASTS):
            e = kids(e)[0]
        elif k == "CXXConstructExpr" and len(kids(e)) == 1:     # copy of an iterator
            e = kids(e)[0]
        else:
            return e


def op_call(e):
    """(operator name, argument nodes) of a CXXOperatorCallExpr, else None"""
    if e.get("kind") != "CXXOperatorCallExpr":
        return None
    ks = kids(e)
    callee = unwrap(ks[0])
    if callee.get("kind") == "ImplicitCastExpr":
        callee = kids(callee)[0]
    name = callee.get("referencedDecl", {}).get("name")
    return name, ks[1:]


class SelFn:
    def __init__(self, params):
        self.params = params      # decl id -> "a" / "b"
        self.bools = {}           # decl id -> name
        self.iters = {}
        self.names = set()

    def declare(self, d, table):
        name = d.get("name")
        if name in self.names:
            refuse(d, "two declarations named " + name)
        self.names.add(name)
        table[d.get("id")] = name
        return name

    def iter_name(self, e):
        e = unwrap(e)
        d = e.get("referencedDecl", {})
        if e.get("kind") == "DeclRefExpr" and d.get("id") in self.iters:
            return self.iters[d["id"]]
        return None

    def cexpr(self, e):
        e = unwrap(e)
        oc = op_call(e)
        if oc and oc[0] == "operator*" and len(oc[1]) == 1:
            it = self.iter_name(oc[1][0])
            if it:
                return '(.deref "%s")' % it
        refuse(e, "not `*iterator`")

    def cov_call(self, e, method):
        """owner->covariant_classes.<method>(...): (owner, [args])"""
        e = unwrap(e)
        if e.get("kind") != "CXXMemberCallExpr":
            return None
        ks = kids(e)
        callee = ks[0]
        if callee.get("kind") != "MemberExpr" or callee.get("name") != method:
            return None
        cont = unwrap(kids(callee)[0])
        if cont.get("kind") != "MemberExpr" or cont.get("name") != "covariant_classes" or not cont.get("isArrow"):
            refuse(e, "%s() on something that is not owner->covariant_classes" % method)
        return self.cexpr(kids(cont)[0]), ks[1:]

    def bexpr(self, e):
        e = unwrap(e)
        k = e.get("kind")
        if k == "CXXBoolLiteralExpr":
            return "(.lit %s)" % ("true" if e.get("value") else "false")
        if k == "DeclRefExpr" and e.get("referencedDecl", {}).get("id") in self.bools:
            return '(.var "%s")' % self.bools[e["referencedDecl"]["id"]]
        if k == "UnaryOperator" and e.get("opcode") == "!":
            return "(.not %s)" % self.bexpr(kids(e)[0])
        if k == "BinaryOperator" and e.get("opcode") in ("!=", "=="):
            a, b = kids(e)
            return "(%s %s %s)" % (".classNe" if e["opcode"] == "!=" else ".classEq", self.cexpr(a), self.cexpr(b))
        oc = op_call(e)
        if oc and oc[0] in ("operator!=", "operator==") and len(oc[1]) == 2:
            i, j = self.iter_name(oc[1][0]), self.iter_name(oc[1][1])
            if i and j:
                if oc[0] == "operator!=":
                    return '(.iterNe "%s" "%s")' % (i, j)
                return '(.not (.iterNe "%s" "%s"))' % (i, j)
            f, en = self.cov_call(oc[1][0], "find"), self.cov_call(oc[1][1], "end")
            if f and en:
                owner, args = f
                if en[0] != owner or en[1] or len(args) != 1:
                    refuse(e, "find() and end() of different containers")
                return "(%s %s %s)" % (".inCov" if oc[0] == "operator!=" else ".notInCov", owner, self.cexpr(args[0]))
        refuse(e, "not a condition I know")

    def stmt(self, s):
        k = s.get("kind")
        if k == "CompoundStmt":
            return Fn.seq([self.stmt(c) for c in kids(s)])
        if k == "NullStmt":
            return ".skip"
        if k == "ReturnStmt":
            if not kids(s):
                refuse(s, "return without a value")
            return "(.ret %s)" % self.bexpr(kids(s)[0])
        if k == "DeclStmt":
            out = []
            for d in kids(s):
                if d.get("kind") != "VarDecl" or not kids(d):
                    refuse(d, "declaration without initialiser")
                ty = d.get("type", {}).get("qualType", "")
                init = kids(d)[0]
                if ty == "bool":
                    v = self.bexpr(init)
                    out.append('(.setBool "%s" %s)' % (self.declare(d, self.bools), v))
                    continue
                call = unwrap(init)
                if call.get("kind") == "CXXMemberCallExpr":
                    callee = kids(call)[0]
                    which = callee.get("name")
                    vec = unwrap(kids(callee)[0]) if kids(callee) else {}
                    par = unwrap(kids(vec)[0]) if vec.get("kind") == "MemberExpr" and vec.get("name") == "vp" and vec.get("isArrow") else {}
                    pid = par.get("referencedDecl", {}).get("id")
                    if which in ("begin", "end", "cbegin", "cend") and pid in self.params and len(kids(call)) == 1:
                        out.append('(%s "%s" "%s")' % (".declBegin" if "begin" in which else ".declEnd", self.declare(d, self.iters), self.params[pid]))
                        continue
                refuse(d, "declaration that is neither a bool nor param->vp.begin() / end()")
            return Fn.seq(out)
        if k == "BinaryOperator" and s.get("opcode") == "=":
            lhs, rhs = kids(s)
            d = lhs.get("referencedDecl", {})
            if lhs.get("kind") == "DeclRefExpr" and d.get("id") in self.bools:
                return '(.setBool "%s" %s)' % (self.bools[d["id"]], self.bexpr(rhs))
            refuse(s, "assignment to something that is not a bool variable")
        if k == "IfStmt":
            cs = kids(s)
            if s.get("hasInit") or s.get("hasVar") or len(cs) not in (2, 3):
                refuse(s, "if with initialiser or condition variable")
            return "(.ite %s %s %s)" % (self.bexpr(cs[0]), self.stmt(cs[1]), self.stmt(cs[2]) if len(cs) == 3 else ".skip")
        if k == "ForStmt":
            raw = s.get("inner") or []
            if len(raw) != 5 or raw[0] or raw[1] or not raw[2] or not raw[4]:
                refuse(s, "for loop with an init statement or a condition variable, or without condition")
            incs = self.incs(raw[3]) if raw[3] else []
            return "(.forLoop %s [%s] %s)" % (self.bexpr(raw[2]), ", ".join('"%s"' % i for i in incs), self.stmt(raw[4]))
        refuse(s, "statement I have no constructor for")

    def incs(self, e):
        e = unwrap(e)
        if e.get("kind") == "BinaryOperator" and e.get("opcode") == ",":
            a, b = kids(e)
            return self.incs(a) + self.incs(b)
        oc = op_call(e)
        if oc and oc[0] == "operator++":
            it = self.iter_name(oc[1][0])
            if it:
                return [it]
        refuse(e, "loop increment that is not ++iterator")


# ------------------------------------------------------------------------------------------------
# compiler<Policy>::best  ->  Yomm2.Pick

OUT_BEST = os.path.join(VERIF, "lean", "Yomm2", "Generated", "BestSrc.lean")


class PickFn:
    def __init__(self, cand_id):
        self.cand = cand_id      # decl id of the parameter `candidates`
        self.spec = None         # decl id of the loop variable
        self.other = None        # decl id of the lambda's parameter

    def is_cands(self, e):
        e = unwrap(e)
        return e.get("kind") == "DeclRefExpr" and e.get("referencedDecl", {}).get("id") == self.cand

    def cands_call(self, e, which):
        e = unwrap(e)
        if e.get("kind") != "CXXMemberCallExpr":
            return False
        callee = kids(e)[0]
        return callee.get("kind") == "MemberExpr" and callee.get("name") == which and self.is_cands(kids(callee)[0]) and len(kids(e)) == 1

    def who(self, e):
        e = unwrap(e)
        d = e.get("referencedDecl", {})
        if e.get("kind") == "DeclRefExpr":
            if d.get("id") == self.spec:
                return ".spec"
            if d.get("id") == self.other:
                return ".other"
        refuse(e, "neither the loop variable nor the lambda's parameter")

    def cond(self, e):
        e = unwrap(e)
        k = e.get("kind")
        if k == "BinaryOperator" and e.get("opcode") in ("||", "&&"):
            a, b = kids(e)
            return "(%s %s %s)" % (".or" if e["opcode"] == "||" else ".and", self.cond(a), self.cond(b))
        if k == "BinaryOperator" and e.get("opcode") in ("==", "!="):
            a, b = kids(e)
            c = "(.same %s %s)" % (self.who(a), self.who(b))
            return c if e["opcode"] == "==" else "(.not %s)" % c
        if k == "UnaryOperator" and e.get("opcode") == "!":
            return "(.not %s)" % self.cond(kids(e)[0])
        if k == "CallExpr":
            ks = kids(e)
            callee = unwrap(ks[0])
            if callee.get("kind") == "ImplicitCastExpr":
                callee = kids(callee)[0]
            if callee.get("referencedDecl", {}).get("name") == "is_more_specific" and len(ks) == 3:
                return "(.ms %s %s)" % (self.who(ks[1]), self.who(ks[2]))
        refuse(e, "not a condition on (spec, other) I know")

    def lambda_cond(self, lam):
        """the instantiated operator() of [spec](auto other) { return cond; }"""
        ops = []

        def walk(n):
            if n.get("kind") == "CXXMethodDecl" and n.get("name") == "operator()" and body_of(n) is not None:
                pars = [c for c in kids(n) if c.get("kind") == "ParmVarDecl"]
                if len(pars) == 1 and pars[0].get("type", {}).get("qualType") != "auto":
                    ops.append((n, pars[0]))
            for c in kids(n):
                walk(c)
        walk(lam)
        if len(ops) != 1:
            refuse(lam, "expected one instantiated call operator with one parameter")
        n, par = ops[0]
        self.other = par.get("id")
        stmts = kids(body_of(n))
        if len(stmts) != 1 or stmts[0].get("kind") != "ReturnStmt" or not kids(stmts[0]):
            refuse(n, "lambda body that is not a single return")
        return self.cond(kids(stmts[0])[0])

    def stmt(self, s):
        k = s.get("kind")
        if k == "CompoundStmt":
            return Fn.seq([self.stmt(c) for c in kids(s)])
        if k == "CXXForRangeStmt":
            raw = s.get("inner") or []
            ks = [c for c in raw if isinstance(c, dict) and c]
            # range, begin, end declarations, condition, increment, loop variable, body
            if len(ks) != 7 or self.spec is not None:
                refuse(s, "range-for of an unexpected shape (or nested)")
            rng = kids(ks[0])[0]
            if not (kids(rng) and self.is_cands(kids(rng)[0])):
                refuse(s, "range-for over something that is not the parameter")
            var = kids(ks[5])[0]
            if var.get("kind") != "VarDecl" or var.get("type", {}).get("qualType", "").endswith("&"):
                refuse(var, "loop variable that is not taken by value")
            self.spec = var.get("id")
            body = self.stmt(ks[6])
            self.spec = None
            return "(.forEach %s)" % body
        if k == "IfStmt":
            cs = kids(s)
            if s.get("hasInit") or s.get("hasVar") or len(cs) != 2:
                refuse(s, "if with else, initialiser or condition variable")
            call = unwrap(cs[0])
            if call.get("kind") == "CallExpr":
                ks = kids(call)
                callee = unwrap(ks[0])
                if callee.get("kind") == "ImplicitCastExpr":
                    callee = kids(callee)[0]
                if callee.get("referencedDecl", {}).get("name") == "all_of" and len(ks) == 4 \
                        and self.cands_call(ks[1], "begin") and self.cands_call(ks[2], "end") and unwrap(ks[3]).get("kind") == "LambdaExpr" \
                        and self.spec is not None:
                    return "(.ifAllOf %s %s)" % (self.lambda_cond(unwrap(ks[3])), self.stmt(cs[1]))
            refuse(s, "condition that is not std::all_of over the candidates with a lambda")
        if k == "ReturnStmt":
            e = unwrap(kids(s)[0]) if kids(s) else {}
            # return candidates;
            if self.is_cands(e):
                return ".retAll"
            # return {spec};
            node = e
            while node.get("kind") in ("CXXStdInitializerListExpr", "CXXConstructExpr") or node.get("kind") in WRAPPERS:
                inner = [c for c in kids(node) if c.get("kind") != "CXXDefaultArgExpr"]
                if len(inner) != 1:
                    break
                node = inner[0]
            if node.get("kind") == "InitListExpr" and len(kids(node)) == 1 and self.spec is not None:
                el = unwrap(kids(node)[0])
                if el.get("kind") == "DeclRefExpr" and el.get("referencedDecl", {}).get("id") == self.spec:
                    return ".retSingle"
            refuse(s, "return of something that is neither {spec} nor the candidates")
        refuse(s, "statement I have no constructor for")


def generate_best(tops):
    found = []

    def walk(n, inspec):
        if n.get("kind") == "ClassTemplateSpecializationDecl" and n.get("name") == "compiler":
            inspec = True
        if inspec and n.get("kind") == "CXXMethodDecl" and n.get("name") == "best" and body_of(n) is not None and not found:
            found.append(n)
        for c in kids(n):
            walk(c, inspec)
    for t in tops:
        walk(t, False)
    if not found:
        raise Refuse("no instantiated body found for best")
    n = found[0]
    pars = [c for c in kids(n) if c.get("kind") == "ParmVarDecl"]
    if len(pars) != 1:
        refuse(n, "expected one parameter")
    body = PickFn(pars[0].get("id")).stmt(body_of(n))
    return "\n".join(["import Yomm2.MiniPick",
                      "/-! Generated by tools/cpp2lean.py from clang's AST of detail/compiler.hpp as instantiated by",
                      "    harness/xlate/compiler_inst.cpp, compiled against /repo. Do not edit. -/",
                      "namespace Yomm2.Generated.BestSrc", "open Yomm2.Pick", "",
                      "def best : Stmt :=\n  %s" % body, "", "end Yomm2.Generated.BestSrc", ""])


STUB_BEST = """import Yomm2.MiniPick
/-! Written by tools/cpp2lean.py because compiler<Policy>::best could not be translated on this run:
    %s
    The body below is a placeholder; the proofs about the translated source cannot hold for it. -/
namespace Yomm2.Generated.BestSrc
open Yomm2.Pick

def translationRefused : String := %s
def best : Stmt := .skip

end Yomm2.Generated.BestSrc
"""


def generate_compare():
    p = subprocess.run(["clang++-14", "-std=c++17", "-fsyntax-only", "-I" + os.path.join(REPO, "include"), "-Xclang",
                        "-ast-dump=json", "-Xclang", "-ast-dump-filter=yorel::yomm2::detail::compiler", SRC_COMPARE],
                       stdout=subprocess.PIPE, stderr=subprocess.PIPE, text=True)
    if not p.stdout.strip():
        raise Refuse("clang produced no AST: " + p.stderr[-400:])
    want = {"is_more_specific": None, "is_base": None}

    def walk(n, inspec):
        if n.get("kind") == "ClassTemplateSpecializationDecl" and n.get("name") == "compiler":
            inspec = True
        if inspec and n.get("kind") == "CXXMethodDecl" and n.get("name") in want and body_of(n) is not None and want[n["name"]] is None:
            pars = [c for c in kids(n) if c.get("kind") == "ParmVarDecl"]
            if len(pars) != 2:
                refuse(n, "expected two parameters")
            fn = SelFn({pars[0].get("id"): "a", pars[1].get("id"): "b"})
            want[n["name"]] = fn.stmt(body_of(n))
        for c in kids(n):
            walk(c, inspec)
    global COMPILER_TOPS
    COMPILER_TOPS = list(stream(p.stdout))
    for t in COMPILER_TOPS:
        walk(t, False)
    missing = [k for k, v in want.items() if v is None]
    if missing:
        raise Refuse("no instantiated body found for " + ", ".join(missing))
    lines = ["import Yomm2.MiniSel",
             "/-! Generated by tools/cpp2lean.py from clang's AST of detail/compiler.hpp as instantiated by",
             "    harness/xlate/compiler_inst.cpp, compiled against /repo. Do not edit. The first parameter is",
             "    called `a`, the second `b`; locals keep their names. -/",
             "namespace Yomm2.Generated.CompareSrc",
             "open Yomm2.Sel", ""]
    for name in ("is_more_specific", "is_base"):
        lines.append("def %s : Stmt :=\n  %s" % (name, want[name]))
        lines.append("")
    lines.append("end Yomm2.Generated.CompareSrc")
    return "\n".join(lines) + "\n"


STUB_COMPARE = """import Yomm2.MiniSel
/-! Written by tools/cpp2lean.py because the functions could not be translated on this run:
    %s
    The bodies below are placeholders; the proofs about the translated source cannot hold for them. -/
namespace Yomm2.Generated.CompareSrc
open Yomm2.Sel

def translationRefused : String := %s
def is_more_specific : Stmt := .skip
def is_base : Stmt := .skip

end Yomm2.Generated.CompareSrc
"""


# ------------------------------------------------------------------------------------------------
# fast_perfect_hash / checked_perfect_hash ::hash_type_id  ->  Yomm2.HashL

SRC_HASH = os.path.join(VERIF, "harness", "xlate", "hash_inst.cpp")
OUT_HASH = os.path.join(VERIF, "lean", "Yomm2", "Generated", "HashSrc.lean")
HASH_STATICS = {"hash_mult", "hash_shift", "hash_length"}


class HashFn:
    def __init__(self, param_id):
        self.param = param_id
        self.vars = {}
        self.error_var = None

    def expr(self, e):
        e = unwrap(e)
        k = e.get("kind")
        d = e.get("referencedDecl", {})
        if k == "DeclRefExpr":
            if d.get("id") == self.param:
                return ".param"
            if d.get("id") in self.vars:
                return '(.var "%s")' % self.vars[d["id"]]
            if d.get("kind") == "VarDecl" and d.get("name") in HASH_STATICS:
                return '(.static "%s")' % d["name"]
            refuse(e, "reference to " + str(d.get("name")))
        if k == "BinaryOperator" and e.get("opcode") in ("*", ">>"):
            a, b = kids(e)
            return "(%s %s %s)" % (".mul" if e["opcode"] == "*" else ".shr", self.expr(a), self.expr(b))
        if k == "CallExpr":
            ks = kids(e)
            callee = unwrap(ks[0])
            if callee.get("kind") == "ImplicitCastExpr":
                callee = kids(callee)[0]
            if callee.get("referencedDecl", {}).get("name") == "hash_type_id" and len(ks) == 2:
                return "(.fastHash %s)" % self.expr(ks[1])
        oc = op_call(e)
        if oc and oc[0] == "operator[]" and len(oc[1]) == 2:
            base = unwrap(oc[1][0])
            if base.get("kind") == "DeclRefExpr" and base.get("referencedDecl", {}).get("name") == "control":
                return "(.controlAt %s)" % self.expr(oc[1][1])
        refuse(e, "not an expression I know")

    def cond(self, e):
        e = unwrap(e)
        if e.get("kind") == "BinaryOperator":
            a, b = kids(e)
            if e.get("opcode") == "||":
                return "(.or %s %s)" % (self.cond(a), self.cond(b))
            if e.get("opcode") == ">=":
                return "(.ge %s %s)" % (self.expr(a), self.expr(b))
            if e.get("opcode") == "!=":
                return "(.ne %s %s)" % (self.expr(a), self.expr(b))
        refuse(e, "not a condition I know")

    def report_block(self, stmts):
        """unknown_class_error error; error.context = ...; error.type = e; Policy::error(error);"""
        reported = None
        called = False
        for st in stmts:
            k = st.get("kind")
            if k == "DeclStmt":
                ds = kids(st)
                if len(ds) == 1 and ds[0].get("kind") == "VarDecl" and "unknown_class_error" in ds[0].get("type", {}).get("qualType", ""):
                    self.error_var = ds[0].get("id")
                    continue
                refuse(st, "declaration in the error block that is not the unknown_class_error")
            if k == "BinaryOperator" and st.get("opcode") == "=":
                lhs, rhs = kids(st)
                if lhs.get("kind") == "MemberExpr" and unwrap(kids(lhs)[0]).get("referencedDecl", {}).get("id") == self.error_var:
                    if lhs.get("name") == "type":
                        reported = self.expr(rhs)
                    elif lhs.get("name") != "context":
                        refuse(st, "assignment to error." + str(lhs.get("name")))
                    continue
                refuse(st, "assignment in the error block")
            inner = unwrap(st)
            names = []

            def walk(n):
                if n.get("kind") == "DeclRefExpr":
                    names.append((n.get("referencedDecl", {}).get("name"), n.get("referencedDecl", {}).get("id")))
                for c in kids(n):
                    walk(c)
            walk(inner)
            if inner.get("kind") in ("CXXOperatorCallExpr", "CallExpr") and ("error", None) != None and any(i == self.error_var for _, i in names) \
                    and any(n == "error" and i != self.error_var for n, i in names):
                called = True
                continue
            refuse(st, "statement in the error block")
        if reported is None or not called:
            refuse(stmts[0] if stmts else {}, "error block that does not set error.type and call Policy::error")
        return "(.reportUnknown %s)" % reported

    def stmt(self, s):
        k = s.get("kind")
        if k == "CompoundStmt":
            out = []
            for c in kids(s):
                if c.get("kind") == "DeclStmt" and all(x.get("kind") == "UsingDirectiveDecl" for x in kids(c)):
                    continue
                out.append(self.stmt(c))
            return Fn.seq(out)
        if k == "ReturnStmt":
            return "(.ret %s)" % self.expr(kids(s)[0])
        if k == "DeclStmt":
            out = []
            for d in kids(s):
                if d.get("kind") != "VarDecl" or not kids(d):
                    refuse(d, "declaration without initialiser")
                v = self.expr(kids(d)[0])
                self.vars[d.get("id")] = d.get("name")
                out.append('(.declVar "%s" %s)' % (d.get("name"), v))
            return Fn.seq(out)
        if k == "IfStmt":
            cs = kids(s)
            if len(cs) != 2:
                refuse(s, "if with else")
            c0 = cs[0]
            # if constexpr (Policy::has_facet<error_handler>) { ... }: the instantiated constant decides
            if c0.get("kind") == "ConstantExpr":
                if c0.get("value") == "true":
                    return self.report_block(kids(cs[1]))
                return ".skip"
            return "(.ifThen %s %s)" % (self.cond(c0), self.stmt(cs[1]))
        if k == "CallExpr":
            callee = unwrap(kids(s)[0])
            if callee.get("kind") == "ImplicitCastExpr":
                callee = kids(callee)[0]
            if callee.get("referencedDecl", {}).get("name") == "abort":
                return ".abort"
        refuse(s, "statement I have no constructor for")


def generate_hash():
    p = subprocess.run(["clang++-14", "-std=c++17", "-fsyntax-only", "-I" + os.path.join(REPO, "include"), "-Xclang",
                        "-ast-dump=json", "-Xclang", "-ast-dump-filter=perfect_hash", SRC_HASH],
                       stdout=subprocess.PIPE, stderr=subprocess.PIPE, text=True)
    if not p.stdout.strip():
        raise Refuse("clang produced no AST: " + p.stderr[-400:])
    got = {}

    def walk(n, spec):
        if n.get("kind") == "ClassTemplateSpecializationDecl":
            spec = n.get("name")
        if spec in ("fast_perfect_hash", "checked_perfect_hash") and n.get("kind") == "CXXMethodDecl" and n.get("name") == "hash_type_id" \
                and body_of(n) is not None and spec not in got:
            pars = [c for c in kids(n) if c.get("kind") == "ParmVarDecl"]
            if len(pars) != 1:
                refuse(n, "expected one parameter")
            got[spec] = (n, pars[0].get("id"))
        for c in kids(n):
            walk(c, spec)
    for t in stream(p.stdout):
        walk(t, None)
    if set(got) != {"fast_perfect_hash", "checked_perfect_hash"}:
        raise Refuse("no instantiated body found for hash_type_id of " + ", ".join({"fast_perfect_hash", "checked_perfect_hash"} - set(got)))
    n, pid = got["fast_perfect_hash"]
    stmts = kids(body_of(n))
    if len(stmts) != 1 or stmts[0].get("kind") != "ReturnStmt":
        refuse(n, "fast hash_type_id is not a single return")
    fast = HashFn(pid).expr(kids(stmts[0])[0])
    n, pid = got["checked_perfect_hash"]
    checked = HashFn(pid).stmt(body_of(n))
    return "\n".join(["import Yomm2.MiniHash",
                      "/-! Generated by tools/cpp2lean.py from clang's AST of policies/fast_perfect_hash.hpp as instantiated by",
                      "    harness/xlate/hash_inst.cpp, compiled against /repo. Do not edit. -/",
                      "namespace Yomm2.Generated.HashSrc", "open Yomm2.HashL", "",
                      "/-- `fast_perfect_hash<Policy>::hash_type_id(type)`: the returned expression -/",
                      "def fast : E :=\n  %s" % fast, "",
                      "/-- `checked_perfect_hash<Policy>::hash_type_id(type)` -/",
                      "def checked : Stmt :=\n  %s" % checked, "", "end Yomm2.Generated.HashSrc", ""])


STUB_HASH = """import Yomm2.MiniHash
/-! Written by tools/cpp2lean.py because hash_type_id could not be translated on this run:
    %s
    The bodies below are placeholders; the proofs about the translated source cannot hold for them. -/
namespace Yomm2.Generated.HashSrc
open Yomm2.HashL

def translationRefused : String := %s
def fast : E := .param
def checked : Stmt := .skip

end Yomm2.Generated.HashSrc
"""


def body_of(m):
    for c in kids(m):
        if c.get("kind") == "CompoundStmt":
            return c
    return None


def translate(m, this_vars=()):
    fn = Fn(set(this_vars))
    params = []
    for c in kids(m):
        if c.get("kind") == "ParmVarDecl":
            if not c.get("type", {}).get("qualType", "").endswith("&"):
                refuse(c, "parameter that is not a reference")
            params.append(fn.declare(c))
    b = body_of(m)
    if b is None:
        refuse(m, "no body")
    return params, fn.stmt(b)


def find_spec(tops):
    """the instantiation static_list<verif::node>, wherever clang put it"""
    found = []

    def walk(n):
        if n.get("kind") == "ClassTemplateSpecializationDecl" and n.get("name") == "static_list":
            found.append(n)
        for c in kids(n):
            walk(c)
    for t in tops:
        walk(t)
    return found


def generate():
    p = subprocess.run(["clang++-14", "-std=c++17", "-fsyntax-only", "-I" + os.path.join(REPO, "include"), "-Xclang",
                        "-ast-dump=json", "-Xclang", "-ast-dump-filter=static_list", SRC],
                       stdout=subprocess.PIPE, stderr=subprocess.PIPE, text=True)
    if not p.stdout.strip():
        raise Refuse("clang produced no AST: " + p.stderr[-400:])
    specs = find_spec(list(stream(p.stdout)))
    want = {"push_back": None, "remove": None, "clear": None}
    incr = {}
    for spec in specs:
        for m in kids(spec):
            if m.get("kind") == "CXXMethodDecl" and m.get("name") in want and body_of(m) is not None:
                want[m["name"]] = translate(m)
            if m.get("kind") == "CXXRecordDecl" and m.get("name") in ("iterator", "const_iterator"):
                for mm in kids(m):
                    if mm.get("kind") == "CXXMethodDecl" and mm.get("name") == "operator++" and body_of(mm) is not None \
                            and not [c for c in kids(mm) if c.get("kind") == "ParmVarDecl"]:
                        # prefix ++: `BOOST_ASSERT(ptr); ptr = ptr->next_ptr; return *this;`
                        b = body_of(mm)
                        stmts = [c for c in kids(b) if c.get("kind") != "ReturnStmt"]
                        fn = Fn({"ptr"})
                        incr[m["name"]] = Fn.seq([fn.stmt(c) for c in stmts])
    missing = [k for k, v in want.items() if v is None] + [k for k in ("iterator", "const_iterator") if k not in incr]
    if missing:
        raise Refuse("no instantiated body found for " + ", ".join(missing))
    lines = ["import Yomm2.MiniCpp",
             "/-! Generated by tools/cpp2lean.py from clang's AST of detail/static_list.hpp as instantiated by",
             "    harness/xlate/static_list_inst.cpp, compiled against /repo. Do not edit. -/",
             "namespace Yomm2.Generated.StaticListSrc",
             "open Yomm2.Mini", ""]
    for name in ("push_back", "remove", "clear"):
        params, body = want[name]
        lines.append("/-- parameters (references, held by address): %s -/" % (", ".join(params) or "none"))
        lines.append("def %s_params : List String := [%s]" % (name, ", ".join('"%s"' % x for x in params)))
        lines.append("def %s : Stmt :=\n  %s" % (name, body))
        lines.append("")
    for name in ("iterator", "const_iterator"):
        lines.append("/-- `%s::operator++()` without its `return *this`; `ptr` is the iterator's member -/" % name)
        lines.append("def %s_incr : Stmt :=\n  %s" % (name, incr[name]))
        lines.append("")
    lines.append("end Yomm2.Generated.StaticListSrc")
    return "\n".join(lines) + "\n"


STUB = """import Yomm2.MiniCpp
/-! Written by tools/cpp2lean.py because the header could not be translated on this run:
    %s
    The bodies below are placeholders; the proofs about the translated source cannot hold for them. -/
namespace Yomm2.Generated.StaticListSrc
open Yomm2.Mini

def translationRefused : String := %s
def push_back_params : List String := []
def push_back : Stmt := .skip
def remove_params : List String := []
def remove : Stmt := .skip
def clear_params : List String := []
def clear : Stmt := .skip
def iterator_incr : Stmt := .skip
def const_iterator_incr : Stmt := .skip

end Yomm2.Generated.StaticListSrc
"""


def main():
    rc = 0
    try:
        text = generate()
    except Refuse as ex:
        msg = "cannot translate static_list.hpp: %s" % ex
        print("cpp2lean: " + msg, file=sys.stderr)
        text = STUB % (msg.replace("-/", "- /"), json.dumps(msg))
        rc = 1
    old = open(OUT).read() if os.path.exists(OUT) else None
    if old != text:
        with open(OUT, "w") as f:
            f.write(text)
    try:
        text = generate_compare()
    except Refuse as ex:
        msg = "cannot translate is_more_specific / is_base of compiler.hpp: %s" % ex
        print("cpp2lean: " + msg, file=sys.stderr)
        text = STUB_COMPARE % (msg.replace("-/", "- /"), json.dumps(msg))
        rc = 1
    old = open(OUT_COMPARE).read() if os.path.exists(OUT_COMPARE) else None
    if old != text:
        with open(OUT_COMPARE, "w") as f:
            f.write(text)
    try:
        text = generate_best(COMPILER_TOPS)
    except Refuse as ex:
        msg = "cannot translate compiler<Policy>::best: %s" % ex
        print("cpp2lean: " + msg, file=sys.stderr)
        text = STUB_BEST % (msg.replace("-/", "- /"), json.dumps(msg))
        rc = 1
    old = open(OUT_BEST).read() if os.path.exists(OUT_BEST) else None
    if old != text:
        with open(OUT_BEST, "w") as f:
            f.write(text)
    try:
        text = generate_hash()
    except Refuse as ex:
        msg = "cannot translate hash_type_id: %s" % ex
        print("cpp2lean: " + msg, file=sys.stderr)
        text = STUB_HASH % (msg.replace("-/", "- /"), json.dumps(msg))
        rc = 1
    old = open(OUT_HASH).read() if os.path.exists(OUT_HASH) else None
    if old != text:
        with open(OUT_HASH, "w") as f:
            f.write(text)
    return rc


if __name__ == "__main__":
    sys.exit(main())
