#!/bin/bash
# runs every claimed check (quick) and validates the evidence files; prints a summary
cd "$(dirname "$0")/.."
export VERIF_REPO="${VERIF_REPO:-${VP_RUN_REPO:-/repo}}"
for c in $(python3 -c "import json;print(' '.join(x['property_id'] for x in json.load(open('MANIFEST.json'))['checks']))"); do
  s=$(date +%s); out=$(python3 tools/verif.py check $c --tier ${1:-quick} 2>&1); rc=$?; e=$(date +%s)
  echo "$c rc=$rc $((e-s))s $(echo "$out" | grep -E 'VIOLATION|KNOWN' | head -2)"
done
python3-vt - <<'PY'
import json,jsonschema,glob
sch=json.load(open('/root/.vp/EVIDENCE.schema.json'))
for f in sorted(glob.glob('evidence/*.json')):
    try:
        d=json.load(open(f)); jsonschema.validate(d,sch); c=d['coverage']
        print(f.split('/')[-1],'valid','obl',c.get('obligations'),'disch',c.get('discharged'),'eval',c.get('evaluations'),'nontriv',c.get('distinct_nontrivial'))
    except Exception as ex:
        print(f,'INVALID',str(ex)[:200])
PY
