import sys, random, time
sys.path.insert(0,'/verif/tools')
import verif, gen
seed=int(sys.argv[1]) if len(sys.argv)>1 else 1
N=int(sys.argv[2]) if len(sys.argv)>2 else 200
pols=sys.argv[3].split(',') if len(sys.argv)>3 else gen.POLICIES
rng=random.Random(seed)
exe,err=verif.build_hdyn()
if err: print(err); sys.exit(1)
scripts=[]
for i in range(N):
    pol=rng.choice(pols)
    shapes=[s for s in gen.SHAPES]
    reg=gen.gen_registry(rng,shapes=shapes)
    style=rng.choice(gen.STYLES)
    lines,meta=gen.emit_script(rng,reg,pol,style=style)
    scripts.append(("s%d-%s-%s-%s"%(i,pol,style,reg.family),lines))
t=time.time()
io,mo,bad,err=verif.run_pair(exe,scripts)
print("time",time.time()-t,"bad",len(bad))
for b in bad[:5]:
    print(b)
if bad:
    name=bad[0][0]
    lines=dict(scripts)[name]
    open('/tmp/bad.txt','w').write("--- %s\n"%name+"\n".join(lines)+"\n")
    print("\n".join(io.get(name,[])[:40]))
    print('-----model')
    print("\n".join(mo.get(name,[])[:40]))
