#!/usr/bin/env python3
"""Orchestrator of the yomm2 verification machinery (DESIGN.md sections 3, 6, 8).

    verif.py setup
    verif.py check <ID> [--tier quick|thorough] [--seed N]
    verif.py replay <path>

Every check: (1) regenerates Generated/*.lean from /repo, `lake build`, audits the proofs;
(2) builds the harnesses from /repo's working tree (cached by content hash under .cache/);
(3) runs corpus + generated scripts through implementation and model and compares them;
(4) on a failure searches for a failing input against the specification oracle;
(5) writes evidence/<ID>.json. Exit 0 iff everything held.
"""
import argparse
import hashlib
import json
import os
import random
import re
import subprocess
import sys
import time

HERE = os.path.dirname(os.path.abspath(__file__))
VERIF = os.path.dirname(HERE)
REPO = os.environ.get("VERIF_REPO", "/repo")
LEAN = os.path.join(VERIF, "lean")
CACHE = os.path.join(VERIF, ".cache")
# seeded changes are checked with VERIF_REPO pointing at a scratch worktree and VERIF_EVIDENCE_DIR at a scratch directory,
# so that the committed evidence always comes from /repo itself
EVID = os.environ.get("VERIF_EVIDENCE_DIR") or os.path.join(VERIF, "evidence")
REPLAYS = os.path.join(VERIF, "replays")
sys.path.insert(0, HERE)

import gen  # noqa: E402

JOBS = os.cpu_count() or 8


def log(*a):
    print(*a, file=sys.stderr, flush=True)


def sh(cmd, **kw):
    return subprocess.run(cmd, shell=isinstance(cmd, str), stdout=subprocess.PIPE, stderr=subprocess.PIPE,
                          text=True, **kw)


def file_hash(paths):
    h = hashlib.sha256()
    for p in sorted(paths):
        h.update(p.encode())
        with open(p, "rb") as f:
            h.update(f.read())
    return h.hexdigest()[:16]


def tree_files(root, exts):
    out = []
    for d, _, fs in os.walk(root):
        if "/.lake" in d or "/_build" in d:
            continue
        for f in fs:
            if f.endswith(exts):
                out.append(os.path.join(d, f))
    return out


# --------------------------------------------------------------------------------------------------
# Lean side

FORBIDDEN = re.compile(r"\b(sorry|admit|native_decide|bv_decide|implemented_by|unsafe)\b|^\s*axiom\s|maxHeartbeats\s+0")
ALLOWED_AXIOMS = {"propext", "Classical.choice", "Quot.sound"}


def strip_comments(src):
    # remove /- ... -/ (nested) and -- comments
    out = []
    i, depth = 0, 0
    while i < len(src):
        if src.startswith("/-", i):
            depth += 1
            i += 2
        elif depth and src.startswith("-/", i):
            depth -= 1
            i += 2
        elif depth:
            i += 1
        elif src.startswith("--", i):
            while i < len(src) and src[i] != "\n":
                i += 1
        else:
            out.append(src[i])
            i += 1
    return "".join(out)


class LeanResult:
    def __init__(self):
        self.ok = False
        self.errors = []
        self.theorems = {}   # name -> axioms
        self.wall = 0.0
        self.driver_ok = False


def prop_modules(prop):
    """the Lean modules that carry the theorems of one property: Props/<prop>*.lean, plus the kernel-evaluated
    instances of Props/Examples.lean for the properties it instantiates, plus the generated obligations"""
    props = os.path.join(LEAN, "Yomm2", "Props")
    mods = []
    for f in sorted(os.listdir(props)):
        if f.endswith(".lean") and re.match(re.escape(prop) + r"(?![0-9])", f):
            mods.append("Yomm2.Props." + f[:-5])
    if prop in ("C01", "C09", "C13"):
        mods.append("Yomm2.Props.Examples")
    mods.append("Yomm2.Proofs.Generated")
    return mods


def lean_build(need_extract=True, prop=None):
    """regenerate Generated/, build the driver and the proofs, audit; returns LeanResult.

    With `prop`, only the modules that carry that property's theorems (and what they import) decide the
    result: a proof that no longer checks elsewhere in the library is another property's business."""
    t0 = time.time()
    res = LeanResult()
    if need_extract:
        ex = sh([sys.executable, os.path.join(HERE, "extract.py")])
        if ex.returncode != 0:
            res.errors.append("extract.py failed: " + ex.stderr[-2000:])
            return res
        res.notes = [l for l in ex.stderr.splitlines() if l.startswith("cpp2lean:")]
    d = sh(["lake", "build", "driver"], cwd=LEAN)
    res.driver_ok = d.returncode == 0
    targets = prop_modules(prop) if prop else []
    b = sh(["lake", "build"] + targets, cwd=LEAN)
    if b.returncode != 0:
        msg = (b.stdout + b.stderr)
        errs = [l for l in msg.splitlines() if "error" in l]
        res.errors.append("lake build %s failed: " % " ".join(targets) + "\n".join(errs[:20]))
        res.errors += getattr(res, "notes", [])
        res.build_log = msg
        res.wall = time.time() - t0
        return res
    # forbidden constructs
    for p in tree_files(LEAN, (".lean",)):
        src = strip_comments(open(p).read())
        for ln, line in enumerate(src.splitlines(), 1):
            if FORBIDDEN.search(line):
                res.errors.append("forbidden construct in %s: %s" % (os.path.relpath(p, LEAN), line.strip()))
    # axioms of every property theorem
    a = sh(["lake", "env", "lean", audit_file(prop)], cwd=LEAN)
    cur = None
    for line in (a.stdout + a.stderr).splitlines():
        m = re.match(r"'([^']+)' depends on axioms: \[(.*)\]", line)
        m2 = re.match(r"'([^']+)' does not depend on any axioms", line)
        if m:
            res.theorems[m.group(1)] = [x.strip() for x in m.group(2).split(",") if x.strip()]
        elif m2:
            res.theorems[m2.group(1)] = []
        elif "error" in line:
            res.errors.append("audit: " + line)
    if a.returncode != 0 and not res.errors:
        res.errors.append("audit failed: " + (a.stdout + a.stderr)[-1000:])
    for name, axs in res.theorems.items():
        bad = [x for x in axs if x not in ALLOWED_AXIOMS]
        if bad:
            res.errors.append("theorem %s depends on non-standard axioms %s" % (name, bad))
    res.ok = not res.errors
    res.wall = time.time() - t0
    return res


DRIVER = os.path.join(LEAN, ".lake", "build", "bin", "driver")

# --------------------------------------------------------------------------------------------------
# harness

HDYN_SRC = os.path.join(VERIF, "harness", "dyn")
HDYN_FLAGS = ["-std=c++17", "-O1", "-g", "-fsanitize=address,undefined", "-fno-sanitize-recover=all",
              "-DYOMM2_VERIF"]


def build_hdyn(include=None, tag=""):
    include = include or os.path.join(REPO, "include")
    srcs = sorted(f for f in os.listdir(HDYN_SRC) if f.endswith(".cpp"))
    key = file_hash(tree_files(include, (".hpp",)) + tree_files(HDYN_SRC, (".cpp", ".hpp"))) + tag
    out = os.path.join(CACHE, "hdyn-" + key)
    exe = os.path.join(out, "hdyn")
    if os.path.exists(exe):
        return exe, None
    os.makedirs(out, exist_ok=True)
    procs = []
    # the seed of the library's multiplier stream is read from the source: the harness replays the stream to
    # tell the model which multipliers the search drew (the theorems hold for every stream)
    seed_def = []
    try:
        m = re.search(r"default_random_engine\s+\w+\((\d+)\)", open(os.path.join(include, "yorel", "yomm2", "policies", "fast_perfect_hash.hpp")).read())
        if m:
            seed_def = ["-DHDYN_HASH_SEED=" + m.group(1)]
    except OSError:
        pass
    for s in srcs:
        o = os.path.join(out, s[:-4] + ".o")
        cmd = ["g++"] + HDYN_FLAGS + seed_def + ["-I" + include, "-c", os.path.join(HDYN_SRC, s), "-o", o]
        procs.append((s, subprocess.Popen(cmd, stdout=subprocess.PIPE, stderr=subprocess.PIPE, text=True)))
    errs = []
    for s, p in procs:
        so, se = p.communicate()
        if p.returncode != 0:
            errs.append("%s: %s" % (s, se[-3000:]))
    if errs:
        return None, "harness does not compile against the current tree:\n" + "\n".join(errs)
    objs = [os.path.join(out, s[:-4] + ".o") for s in srcs]
    l = sh(["g++", "-fsanitize=address,undefined", "-Wl,--allow-multiple-definition"] + objs + ["-o", exe])
    if l.returncode != 0:
        return None, "harness link failed: " + l.stderr[-2000:]
    # keep the cache small: drop older builds
    for d in os.listdir(CACHE):
        if d.startswith("hdyn-") and os.path.join(CACHE, d) != out:
            subprocess.run(["rm", "-rf", os.path.join(CACHE, d)])
    return exe, None


# --------------------------------------------------------------------------------------------------
# running scripts through both sides

def join_scripts(scripts):
    out = []
    for name, lines in scripts:
        out.append("--- " + name)
        out.extend(lines)
    return "\n".join(out) + "\n"


def split_output(text):
    res, cur = {}, None
    for l in text.splitlines():
        if l.startswith("--- "):
            cur = l[4:]
            res[cur] = []
        elif cur is not None:
            res[cur].append(l)
    return res


def run_impl(exe, scripts, timeout=1800):
    env = dict(os.environ)
    env["ASAN_OPTIONS"] = "detect_leaks=0:abort_on_error=0:exitcode=97"
    env["UBSAN_OPTIONS"] = "print_stacktrace=0:exitcode=98"
    chunks = chunk(scripts, JOBS)
    procs = []
    for c in chunks:
        p = subprocess.Popen([exe], stdin=subprocess.PIPE, stdout=subprocess.PIPE, stderr=subprocess.PIPE,
                             text=True, env=env)
        procs.append((p, c))
    out = {}
    stderr_all = []
    import threading
    results = [None] * len(procs)

    def work(i, p, c):
        results[i] = p.communicate(join_scripts(c), timeout=timeout)
    ths = [threading.Thread(target=work, args=(i, p, c)) for i, (p, c) in enumerate(procs)]
    for t in ths:
        t.start()
    for t in ths:
        t.join()
    for (p, c), r in zip(procs, results):
        so, se = r
        out.update(split_output(so))
        stderr_all.append(se)
    return out, "\n".join(stderr_all)


def chunk(lst, k):
    k = max(1, min(k, len(lst)))
    size = (len(lst) + k - 1) // k
    return [lst[i:i + size] for i in range(0, len(lst), size)]


def inject_rng(scripts, impl_out):
    """give the model the multiplier streams the implementation consumed (`#rng` lines)"""
    out = []
    for name, lines in scripts:
        rngs = [l[4:].strip() for l in impl_out.get(name, []) if l.startswith("#rng")]
        k = 0
        new = []
        for l in lines:
            if l.strip() == "update":
                if k < len(rngs):
                    new.append("rng " + rngs[k])
                k += 1
            new.append(l)
        out.append((name, new))
    return out


def run_model(scripts, mode=None, timeout=1800):
    chunks = chunk(scripts, JOBS)
    cmd = [DRIVER] + ([mode] if mode else [])
    procs = [(subprocess.Popen(cmd, stdin=subprocess.PIPE, stdout=subprocess.PIPE, stderr=subprocess.PIPE, text=True), c)
             for c in chunks]
    out = {}
    import threading
    results = [None] * len(procs)

    def work(i, p, c):
        results[i] = p.communicate(join_scripts(c), timeout=timeout)
    ths = [threading.Thread(target=work, args=(i, p, c)) for i, (p, c) in enumerate(procs)]
    for t in ths:
        t.start()
    for t in ths:
        t.join()
    for (p, c), r in zip(procs, results):
        out.update(split_output(r[0]))
    return out


def visible(lines):
    return [l for l in lines if not l.startswith("#")]


def compare(scripts, impl_out, model_out):
    """returns list of (name, first differing index, impl line, model line)"""
    bad = []
    for name, _ in scripts:
        a = visible(impl_out.get(name, ["<missing>"]))
        b = model_out.get(name, ["<missing>"])
        if a != b:
            i = 0
            while i < min(len(a), len(b)) and a[i] == b[i]:
                i += 1
            bad.append((name, i, a[i] if i < len(a) else "<end>", b[i] if i < len(b) else "<end>"))
    return bad


def run_pair(exe, scripts):
    impl_out, impl_err = run_impl(exe, scripts)
    mscripts = inject_rng(scripts, impl_out)
    model_out = run_model(mscripts)
    return impl_out, model_out, compare(scripts, impl_out, model_out), impl_err


# --------------------------------------------------------------------------------------------------
# specification oracle and failing-input search

OBS_PREFIX = ("ran", "raised", "!signal", "!exit", "fault", "update")


def segments(lines):
    """output lines grouped by the `@k` markers printed for `echo k` ops"""
    seg, cur = {}, None
    for l in lines:
        if l.startswith("@"):
            try:
                cur = int(l[1:])
            except ValueError:
                cur = None
                continue
            seg[cur] = []
        elif cur is not None:
            seg[cur].append(l)
    return seg


def segments_str(lines):
    """like segments, with arbitrary marker strings"""
    seg, cur = {}, None
    for l in lines:
        if l.startswith("@"):
            cur = l[1:]
            seg[cur] = []
        elif cur is not None:
            seg[cur].append(l)
    return seg


def oracle_check(exe, scripts):
    """run implementation and the spec oracle (driver --oracle); compare, op by op, the observables
    of calls (what ran / which error / a crash) made while the latest update had completed.
    returns list of (name, op index, impl, oracle)"""
    tagged = []
    for name, lines in scripts:
        new = []
        for k, l in enumerate(lines):
            if l.split()[0] in ("update", "call", "callnext", "callfinal", "vcall", "vnew", "vfinal"):
                new.append("echo %d" % k)
            new.append(l)
        tagged.append((name, new))
    impl_out, _ = run_impl(exe, tagged)
    orc = run_model(inject_rng(tagged, impl_out), mode="--oracle")
    bad = []
    for name, lines in scripts:
        io = visible(impl_out.get(name, []))
        a, b = segments(io), segments(orc.get(name, []))
        live = False
        for k, l in enumerate(lines):
            op = l.split()[0]
            if k not in a:
                continue
            x = a[k][0] if a[k] else "<nothing>"
            y = b.get(k, ["<nothing>"])
            y = y[0] if y else "<nothing>"
            if op == "update":
                live = (x == "update ok" and y == "update ok")
                if x != y and not x.startswith("update raised hash_search") and x.startswith("update") and y.startswith("update"):
                    bad.append((name, k, x, y))
                    break
                continue
            if not live:
                continue
            if y == "illegal":
                if x.startswith(("!signal", "!exit")):
                    break   # undefined behaviour on an illegal call: no verdict, and the process is gone
                continue
            if x.startswith(("!signal", "!exit")):
                bad.append((name, k, x, y))
                break
            if y in ("illegal", "<nothing>") or y.startswith(("call bad", "!harness")) or x.startswith(("call bad", "!harness")):
                continue
            if x != y:
                bad.append((name, k, x, y))
                break
    return bad


def shrink(lines, still_fails, budget=50):
    """delta debugging on script lines (the `policy` line is kept)"""
    head, body = lines[:1], lines[1:]
    n = 2
    tries = 0
    while len(body) >= 2 and tries < budget:
        size = max(1, len(body) // n)
        removed = False
        for i in range(0, len(body), size):
            cand = body[:i] + body[i + size:]
            tries += 1
            if cand and still_fails(head + cand):
                body = cand
                n = max(n - 1, 2)
                removed = True
                break
            if tries >= budget:
                break
        if not removed:
            if size == 1:
                break
            n = min(len(body), n * 2)
    return head + body


# --------------------------------------------------------------------------------------------------
# evidence / violations

def write_replay(prop, name, payload):
    os.makedirs(REPLAYS, exist_ok=True)
    path = os.path.join(REPLAYS, "%s-%s.json" % (prop, re.sub(r"[^A-Za-z0-9_.-]", "_", name)))
    with open(path, "w") as f:
        json.dump(payload, f, indent=1)
    return path


def load_known():
    path = os.path.join(VERIF, "known_findings.jsonl")
    out = []
    if os.path.exists(path):
        for l in open(path):
            l = l.strip()
            if l and not l.startswith("#"):
                out.append(json.loads(l))
    return out


class Check:
    """state of one check run"""

    def __init__(self, prop, tier, seed):
        self.prop, self.tier, self.seed = prop, tier, seed
        self.t0 = time.time()
        self.violations = []      # (replay path, suffix)
        self.coverage = {}
        self.assumptions = []
        self.lean = None
        self.exe = None
        self.broken_proof = None

    def violation(self, replay, found_input):
        """recorded now, printed by finish(): a violation with a concrete failing input supersedes the
        ones that only name a theorem or correspondence that no longer checks"""
        self.violations.append((replay, found_input))

    def finish(self, level="proof"):
        if any(f for _, f in self.violations):
            self.violations = [v for v in self.violations if v[1]]
        for replay, found_input in self.violations:
            print("VIOLATION property=%s replay=%s%s" % (self.prop, replay, "" if found_input else " no-failing-input-found"),
                  flush=True)
        os.makedirs(EVID, exist_ok=True)
        ev = {
            "property_id": self.prop,
            "tier": self.tier,
            "seed": self.seed,
            "level": level,
            "coverage": self.coverage,
            "assumptions": self.assumptions,
            "wall_s": round(time.time() - self.t0, 2),
            "violations": len(self.violations),
        }
        with open(os.path.join(EVID, self.prop + ".json"), "w") as f:
            json.dump(ev, f, indent=1)
        return 1 if self.violations else 0


# --------------------------------------------------------------------------------------------------
# audit file, CLI

def audit_file(prop=None):
    return "Audit.lean" if not prop else os.path.join(".lake", "Audit_%s.lean" % prop)


def theorem_names(path):
    src = strip_comments(open(path).read())
    ns, names = "", []
    for m in re.finditer(r"^(namespace|theorem)\s+(\S+)", src, re.M):
        if m.group(1) == "namespace":
            ns = m.group(2)
        else:
            names.append(ns + "." + m.group(2))
    return names


def write_audit(prop=None):
    """Audit.lean prints the axioms of every theorem under Yomm2/Props and of the generated obligations; the
    audit of one property imports and lists only the modules of that property"""
    names = []
    if prop:
        mods = prop_modules(prop)
        for mod in mods:
            names += theorem_names(os.path.join(LEAN, *mod.split(".")) + ".lean")
        body = "".join("import %s\n" % m for m in mods) + "".join("#print axioms %s\n" % n for n in names)
    else:
        for sub in ("Props", os.path.join("Proofs", "Generated.lean")):
            root = os.path.join(LEAN, "Yomm2", sub)
            files = tree_files(root, (".lean",)) if os.path.isdir(root) else [root]
            for p in sorted(files):
                names += theorem_names(p)
        body = "import Yomm2\n" + "".join("#print axioms %s\n" % n for n in names)
    path = os.path.join(LEAN, audit_file(prop))
    os.makedirs(os.path.dirname(path), exist_ok=True)
    if not os.path.exists(path) or open(path).read() != body:
        open(path, "w").write(body)
    return names


def recheck_oleans(prop=None):
    """thorough tier: the compiled library is replayed declaration by declaration by leanchecker, the
    toolchain's independent re-checker (--fresh: the whole environment, core included); cached by the
    hash of the compiled files. When the whole library no longer builds (a proof of another property broke)
    only the modules of this property are replayed. Returns (ok, seconds, message)"""
    full = sh(["lake", "build"], cwd=LEAN)
    if full.returncode != 0 and prop:
        t0 = time.time()
        for mod in prop_modules(prop):
            r = sh(["lake", "env", "leanchecker", "--fresh", mod], cwd=LEAN)
            if r.returncode != 0:
                return False, time.time() - t0, (r.stdout + r.stderr)[-2000:]
        return True, time.time() - t0, "leanchecker --fresh on the modules of %s (the whole library does not build)" % prop
    lib = os.path.join(LEAN, ".lake", "build", "lib")
    h = hashlib.sha256()
    for p in sorted(tree_files(lib, (".olean",))):
        h.update(p.encode())
        h.update(open(p, "rb").read())
    key = os.path.join(CACHE, "leanchecker-" + h.hexdigest()[:16])
    if os.path.exists(key):
        return True, 0.0, "cached: these compiled files were re-checked before"
    t0 = time.time()
    r = sh(["lake", "env", "leanchecker", "--fresh", "Yomm2"], cwd=LEAN)
    dt = time.time() - t0
    if r.returncode == 0:
        os.makedirs(CACHE, exist_ok=True)
        open(key, "w").write("ok %.1fs\n" % dt)
        return True, dt, "leanchecker --fresh Yomm2: every declaration replayed"
    return False, dt, (r.stdout + r.stderr)[-2000:]


def prepare(ck, need_harness=True):
    """steps (1) and (2) of every check. Returns "ok", "search" (proof obligations broke but the
    model still runs: look for a failing input) or "stop"."""
    write_audit(ck.prop)
    ck.lean = lean_build(prop=ck.prop)
    if ck.lean.ok and ck.tier == "thorough":
        ok, dt, msg = recheck_oleans(ck.prop)
        ck.leanchecker = {"ok": ok, "seconds": round(dt, 1), "detail": msg}
        if not ok:
            ck.lean.ok = False
            ck.lean.errors.append("leanchecker rejected the compiled library: " + msg)
    mode = "ok"
    if not ck.lean.ok:
        ck.broken_proof = write_replay(ck.prop, "proof", {
            "property": ck.prop, "kind": "proof obligations no longer check",
            "errors": ck.lean.errors[:30],
            "note": "a theorem, a generated obligation (constants re-extracted from /repo) or the audit failed",
        })
        ck.coverage = {"obligations": max(1, len(ck.lean.theorems)), "discharged": 0,
                       "checker_cmd": "lake build && lake env lean Audit.lean", "trusted_base": ["Lean 4.33.0 kernel"],
                       "errors": ck.lean.errors[:10]}
        mode = "search" if ck.lean.driver_ok else "stop"
    if need_harness and mode != "stop":
        ck.exe, err = build_hdyn()
        if err:
            path = write_replay(ck.prop, "harness", {"property": ck.prop, "kind": "harness does not build against the current tree", "errors": err[-4000:]})
            if not ck.coverage:
                ck.coverage = {"obligations": len(ck.lean.theorems), "discharged": len(ck.lean.theorems),
                               "checker_cmd": "lake build && lake env lean Audit.lean", "trusted_base": ["Lean 4.33.0 kernel"],
                               "errors": [err[-2000:]]}
            ck.violation(path, False)
            return "stop"
    if mode == "stop":
        ck.violation(ck.broken_proof, False)
    return mode


def known_findings_for(prop):
    return [k for k in load_known() if k.get("property") == prop and k.get("status") == "open"]


def main():
    ap = argparse.ArgumentParser()
    ap.add_argument("cmd", choices=["setup", "check", "replay"])
    ap.add_argument("arg", nargs="?")
    ap.add_argument("--tier", default=os.environ.get("VERIF_TIER", "quick"))
    ap.add_argument("--seed", type=int, default=int(os.environ.get("VERIF_SEED", "1")))
    a = ap.parse_args()
    if a.cmd == "setup":
        write_audit()
        r = lean_build()
        for e in r.errors:
            log("setup: " + e)
        exe, err = build_hdyn()
        if err:
            log(err)
        import checks
        for fn in getattr(checks, "SETUP_HOOKS", []):
            fn()
        return 0 if (r.ok and not err) else 1
    if a.cmd == "replay":
        payload = json.load(open(a.arg))
        exe, err = build_hdyn()
        for key in ("script", "order_a", "order_b", "presentation_a", "presentation_b"):
            if key in payload and isinstance(payload[key], list):
                name = "replay-" + key
                io, mo, bad, _ = run_pair(exe, [(name, payload[key])])
                orc = run_model(inject_rng([(name, [l for l in payload[key] if l.strip() != "dump"])], io), mode="--oracle")
                print("== %s: implementation" % key)
                print("\n".join(io.get(name, [])))
                print("== %s: model" % key)
                print("\n".join(mo.get(name, [])))
                print("== %s: specification oracle (calls only)" % key)
                print("\n".join(orc.get(name, [])))
        return 0
    import checks
    fn = getattr(checks, "check_" + a.arg, None)
    if fn is None:
        log("no check for " + str(a.arg))
        return 2
    ck = Check(a.arg, a.tier if a.tier in ("quick", "thorough") else "quick", a.seed)
    mode = prepare(ck, need_harness=getattr(fn, "needs_hdyn", True))
    if mode in ("ok", "search"):
        saved = ck.coverage
        fn(ck)
        if mode == "search":
            ck.coverage.update({"obligations": saved.get("obligations", 1), "discharged": 0, "errors": saved.get("errors")})
            if not any(found for _, found in ck.violations):
                ck.violations = []
                ck.violation(ck.broken_proof, False)
    for k in known_findings_for(a.arg):
        # printed only while the check still observes the listed failure
        if k.get("witness") in getattr(ck, "known_observed", set()):
            print("KNOWN-FINDING: property=%s %s" % (a.arg, k.get("what", "")), flush=True)
    return ck.finish(level=getattr(fn, "level", "proof"))


if __name__ == "__main__":
    sys.exit(main())
