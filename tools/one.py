import sys
sys.path.insert(0,'/verif/tools')
import verif
f=sys.argv[1]
txt=open(f).read().split('\n')
name=txt[0][4:]; lines=[l for l in txt[1:] if l]
exe,_=verif.build_hdyn()
io,_=verif.run_impl(exe,[(name,lines)])
ms=verif.inject_rng([(name,lines)],io)
open(f+'.m','w').write(verif.join_scripts(ms))
