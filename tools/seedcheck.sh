#!/bin/bash
# usage: seedcheck.sh <ID> <dir with patch.diff demo.cpp>
# Confirms a seeded change: demo passes without / fails with the change; test-suite passes with it.
id=$1; src=$2; wt=/tmp/seedcheck-$id
set -x
git -C /repo worktree add --detach $wt HEAD -q || exit 2
cd $wt
g++ -std=c++17 -I$wt/include $src/demo.cpp -o /tmp/demo-$id-clean 2>/tmp/demo-$id-clean.log; /tmp/demo-$id-clean > /tmp/demo-$id-clean.out 2>&1; echo "clean demo rc=$?" > /tmp/seedcheck-$id.result
git apply $src/patch.diff || { echo "patch does not apply" >> /tmp/seedcheck-$id.result; }
g++ -std=c++17 -I$wt/include $src/demo.cpp -o /tmp/demo-$id-mut 2>/tmp/demo-$id-mut.log; /tmp/demo-$id-mut > /tmp/demo-$id-mut.out 2>&1; echo "mutant demo rc=$?" >> /tmp/seedcheck-$id.result
cmake -G Ninja -B _build -DCMAKE_BUILD_TYPE=RelWithDebInfo -DYOMM2_ENABLE_TESTS=ON -DCMAKE_CXX_FLAGS=-Wno-error >/dev/null 2>&1
cmake --build _build -j${JOBS:-6} 2>&1 | tail -1 >> /tmp/seedcheck-$id.result
ctest --test-dir _build -j8 --timeout 900 2>&1 | tail -3 >> /tmp/seedcheck-$id.result
cd /; git -C /repo worktree remove --force $wt
rm -f /tmp/demo-$id-clean /tmp/demo-$id-mut
cat /tmp/seedcheck-$id.result
