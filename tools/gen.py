"""Generators of registries and scripts for the H-dyn harness / Lean driver (DESIGN.md 3.3).

All randomness comes from one random.Random seeded by the caller, so every case replays from its
script. A *registry* is abstract (class DAG, methods, definitions); `emit_script` turns it into the
line protocol for one policy, one presentation of the base lists and one registration order."""
import itertools
import random

SHAPES = ["V", "P", "NV", "VN", "VV", "PV", "VNV", "NVVN", "VVV", "VPNV", "VVVV", "PP"]
POLICIES = ["fast", "checked", "plain", "map", "indirect", "proj", "deferred", "backward"]
HASHED = {"fast", "checked", "indirect", "indmix", "proj", "deferred", "backward"}
KEYS_PER_SHAPE = 3
MAX_DEFS = 8


def arity(shape):
    return sum(1 for c in shape if c != "N")


# ------------------------------------------------------------------------------------------------
# class graphs

def gen_dag(rng, n, family):
    """parents[i] = list of direct bases (indices < i)"""
    parents = [[] for _ in range(n)]
    if family == "chain":
        for i in range(1, n):
            parents[i] = [i - 1]
    elif family == "tree":
        for i in range(1, n):
            parents[i] = [rng.randrange(i)]
    elif family == "forest":
        for i in range(1, n):
            if rng.random() < 0.3:
                continue
            parents[i] = [rng.randrange(i)]
    elif family == "diamond":
        # ladder of diamonds
        i = 1
        tops = [0]
        while i < n:
            t = rng.choice(tops)
            if i + 2 < n:
                parents[i] = [t]
                parents[i + 1] = [t]
                parents[i + 2] = [i, i + 1]
                tops = [i + 2]
                i += 3
            else:
                parents[i] = [t]
                i += 1
    elif family == "fanin":
        roots = max(2, n // 2)
        for i in range(roots, n):
            k = rng.randint(2, min(4, roots))
            parents[i] = sorted(rng.sample(range(i), min(k, i)))
    else:  # "random": arbitrary DAG, then reduced to direct edges
        for i in range(1, n):
            k = rng.choice([0, 1, 1, 1, 2, 2, 3])
            if k:
                parents[i] = sorted(rng.sample(range(i), min(k, i)))
    return reduce_direct(parents)


def ancestors(parents):
    n = len(parents)
    anc = [set() for _ in range(n)]
    for i in range(n):
        for p in parents[i]:
            anc[i] |= {p} | anc[p]
    return anc


def reduce_direct(parents):
    """drop edges implied by others so that parents are exactly the direct bases"""
    anc = ancestors(parents)
    out = []
    for i, ps in enumerate(parents):
        out.append([p for p in ps if not any(p in anc[q] for q in ps if q != p)])
    return out


def descendants(parents):
    n = len(parents)
    anc = ancestors(parents)
    return [sorted({i} | {d for d in range(n) if i in anc[d]}) for i in range(n)]


FAMILIES = ["chain", "tree", "forest", "diamond", "fanin", "random", "random", "random"]


class Registry:
    def __init__(self):
        self.parents = []      # class index -> direct bases
        self.abstract = []
        self.methods = []      # dicts: key, shape, vp (class indices), defs: list of (defid, vp)
        self.family = ""

    def stats(self):
        anc = ancestors(self.parents)
        return {
            "classes": len(self.parents),
            "family": self.family,
            "multi_inheritance": any(len(p) > 1 for p in self.parents),
            "methods": len(self.methods),
            "defs": sum(len(m["defs"]) for m in self.methods),
            "max_arity": max([arity(m["shape"]) for m in self.methods] or [0]),
        }


def gen_registry(rng, n_classes=None, n_methods=None, shapes=None, max_defs=6, abstract_p=0.15):
    r = Registry()
    n = n_classes or rng.randint(2, 9)
    r.family = rng.choice(FAMILIES)
    r.parents = gen_dag(rng, n, r.family)
    r.abstract = [rng.random() < abstract_p for _ in range(n)]
    desc = descendants(r.parents)
    shapes = shapes or SHAPES
    nm = n_methods if n_methods is not None else rng.randint(1, 4)
    used = {}
    for k in range(nm):
        shape = rng.choice(shapes)
        if used.get(shape, 0) >= KEYS_PER_SHAPE:
            continue
        used[shape] = used.get(shape, 0) + 1
        ar = arity(shape)
        # bias towards classes with descendants
        weights = [len(desc[c]) for c in range(n)]
        vp = [rng.choices(range(n), weights)[0] for _ in range(ar)]
        defs = []
        nd = rng.randint(0, min(max_defs, MAX_DEFS))
        seen = set()
        anc = ancestors(r.parents)
        # half of the methods: definitions that are all applicable to one target tuple (overlapping,
        # often incomparable: ambiguity, non-transitive specificity and long next chains are common)
        target = tuple(rng.choice(desc[v]) for v in vp) if rng.random() < 0.5 else None
        for j in range(nd):
            if target is not None and rng.random() < 0.85:
                t = tuple(rng.choice([c for c in ([tc] + sorted(anc[tc])) if c in desc[v]]) for tc, v in zip(target, vp))
            else:
                t = tuple(rng.choice(desc[v]) for v in vp)
            if t in seen and rng.random() < 0.9:
                continue
            seen.add(t)
            defs.append((100 * (k + 1) + j, list(t)))
        r.methods.append({"key": k, "shape": shape, "vp": vp, "defs": defs})
    return r


# ------------------------------------------------------------------------------------------------
# ids

def make_ids(rng, n, policy, family=None):
    """type ids for n classes under a policy; returns list of id lists (aliases) per class"""
    if policy in ("plain",):
        base = rng.randint(0, 50)
        ids = rng.sample(range(base, base + 4 * n + 8), n)
        return [[i] for i in ids]
    if policy == "proj":
        keys = rng.sample(range(1, 4 * n + 8), n)
        out = []
        for k in keys:
            na = rng.choice([1, 1, 2, 3])
            out.append([8 * k + a for a in rng.sample(range(8), na)])
        return out
    fam = family or rng.choice(["pointer", "stride", "small", "random64", "highbits", "lowbits"])
    if fam == "pointer":
        base = 0x560000000000 + rng.randrange(1 << 30) * 16
        offs = rng.sample(range(0, 64 * n + 64), n)
        return [[base + 16 * o] for o in offs]
    if fam == "stride":
        base = rng.randrange(1, 1 << 40)
        stride = rng.choice([1, 2, 8, 24, 64, 4096])
        return [[base + stride * i] for i in range(n)]
    if fam == "small":
        ids = rng.sample(range(0, 8 * n + 8), n)
        return [[i] for i in ids]
    if fam == "highbits":
        low = rng.randrange(1 << 20)
        his = rng.sample(range(1, 1 << 20), n)
        return [[(h << 44) | low] for h in his]
    if fam == "lowbits":
        hi = rng.randrange(1, 1 << 40) << 20
        los = rng.sample(range(1 << 12), n)
        return [[hi | l] for l in los]
    out = set()
    while len(out) < n:
        v = rng.getrandbits(64)
        if v not in (0, 2 ** 64 - 1):
            out.add(v)
    return [[v] for v in out]


# ------------------------------------------------------------------------------------------------
# presentations of the base lists

STYLES = ["complete", "direct", "superset", "split", "noself"]


def present(rng, reg, ids, style):
    """list of class records (id, abstract, listed base ids); one or more per class"""
    anc = ancestors(reg.parents)
    recs = []
    for c, ps in enumerate(reg.parents):
        self_id = ids[c][0]
        trans = sorted(anc[c])
        if style == "complete":
            listed = [c] + trans
        elif style == "direct":
            listed = [c] + list(ps)
        elif style == "noself":
            listed = list(ps) + [b for b in trans if b not in ps and rng.random() < 0.5]
        else:
            extra = [b for b in trans if b not in ps and rng.random() < 0.5]
            listed = [c] + list(ps) + extra
            if rng.random() < 0.3 and listed:
                listed.append(rng.choice(listed))  # duplicate
        rng.shuffle(listed) if style in ("superset", "split") else None
        if style == "split" and len(listed) > 1 and rng.random() < 0.6:
            k = rng.randint(1, len(listed) - 1)
            parts = [listed[:k], listed[k:]]
        else:
            parts = [listed]
        for part in parts:
            recs.append((self_id, reg.abstract[c], [ids[b][0] for b in part]))
        # alias records (several ids for one class)
        for alias in ids[c][1:]:
            recs.append((alias, reg.abstract[c], [ids[b][rng.randrange(len(ids[b]))] for b in [c] + list(ps)]))
    return recs


def emit_script(rng, reg, policy, style="complete", shuffle=True, ids=None, calls="all",
                max_calls=400, dump=True, callnext=True, budget=None, call_rng=None):
    """returns (lines, meta)"""
    n = len(reg.parents)
    ids = ids or make_ids(rng, n, policy)
    recs = present(rng, reg, ids, style)
    ops = []
    for h, (cid, ab, bases) in enumerate(recs):
        ops.append("class %d %d %d %s" % (h + 1, cid, 1 if ab else 0, " ".join(map(str, bases))))
    mops = []
    for m in reg.methods:
        mops.append(("method %d %s %s" % (m["key"], m["shape"], " ".join(str(ids[c][0]) for c in m["vp"])),
                     ["def %d %d %s" % (m["key"], d, " ".join(str(ids[c][0]) for c in vp)) for d, vp in m["defs"]]))
    if shuffle:
        rng.shuffle(ops)
        rng.shuffle(mops)
        for _, defs in mops:
            rng.shuffle(defs)
    lines = ["policy " + policy]
    if budget is not None:
        lines.append("budget %d" % budget)
    # classes and methods interleaved in a random way (static initialisation order)
    seq = ops + [x for m, defs in mops for x in [m]]
    if shuffle:
        rng.shuffle(seq)
    lines += seq
    for _, defs in mops:
        lines += defs
    lines.append("update")
    if dump:
        lines.append("dump")
    desc = descendants(reg.parents)
    ncalls = 0
    if call_rng is not None:
        rng = call_rng
    for m in reg.methods:
        doms = [desc[v] for v in m["vp"]]
        total = 1
        for d in doms:
            total *= len(d)
        if calls == "none":
            tuples = []
        elif calls == "all" and total <= max_calls:
            tuples = itertools.product(*doms)
            lines.append("#full %d" % m["key"])
        else:
            tuples = [tuple(rng.choice(d) for d in doms) for _ in range(min(max_calls, 64))]
        for t in tuples:
            # any alias id of the dynamic class
            args = " ".join(str(ids[c][int(rng.random() * len(ids[c]))]) for c in t)
            lines.append("call %d %s" % (m["key"], args))
            ncalls += 1
            if callnext and rng.random() < 0.25:
                lines.append("callnext %d %s" % (m["key"], args))
    return lines, {"ids": ids, "calls": ncalls, "records": len(recs)}
