#!/usr/bin/env python3
"""Runs checks against the tree with each `fix:` commit reverted (and against seeded changes), to
measure what the machinery detects. Works on the repository copy named by VERIF_REPO (never on /repo
when started through `vp run --with-repo`)."""
import json, os, subprocess, sys
HERE = os.path.dirname(os.path.abspath(__file__))
VERIF = os.path.dirname(HERE)
REPO = os.environ.get("VERIF_REPO") or os.environ.get("VP_RUN_REPO") or "/repo"
os.environ["VERIF_REPO"] = REPO

def sh(cmd, **kw):
    return subprocess.run(cmd, shell=True, stdout=subprocess.PIPE, stderr=subprocess.STDOUT, text=True, **kw)

def run_check(prop):
    r = sh("python3 %s/verif.py check %s" % (HERE, prop), cwd=VERIF)
    v = [l for l in r.stdout.splitlines() if l.startswith("VIOLATION")]
    return r.returncode, v

def main():
    results = []
    plan = []
    for l in open(os.path.join(VERIF, "known_findings.jsonl")):
        if l.startswith("{"):
            k = json.loads(l)
            if k["status"] == "fixed":
                plan.append(("revert-" + k["commit"], "git -C %s show %s | git -C %s apply -R" % (REPO, k["commit"], REPO), [k["property"]] + extra_props(k["what"]), k["what"]))
    sd = os.path.join(VERIF, "seeded")
    for d in sorted(os.listdir(sd)) if os.path.isdir(sd) else []:
        p = os.path.join(sd, d, "patch.diff")
        if os.path.exists(p):
            plan.append(("seed-" + d, "git -C %s apply %s" % (REPO, p), [d.split("-")[0]], d))
    only = sys.argv[1:]
    for name, apply_cmd, props, what in plan:
        if only and not any(o in name for o in only):
            continue
        a = sh(apply_cmd)
        if a.returncode != 0:
            results.append((name, "apply failed: " + a.stdout[-300:]))
            sh("git -C %s checkout -- ." % REPO)
            continue
        for prop in props:
            rc, v = run_check(prop)
            results.append((name, prop, rc, v[:1], what[:80]))
            print(name, prop, rc, v[:1], flush=True)
        sh("git -C %s checkout -- ." % REPO)
    print(json.dumps(results, indent=1))

def extra_props(what):
    import re
    m = re.search(r"\(also ([C0-9 ]+)\)", what)
    return m.group(1).split() if m else []

if __name__ == "__main__":
    main()
