#!/bin/bash
# Runs the repository's own test suite with the verification guard OFF (the default build).
set -e
cd /repo
if [ ! -f _build/build.ninja ]; then
  cmake -G Ninja -B _build -DCMAKE_BUILD_TYPE=RelWithDebInfo -DYOMM2_ENABLE_TESTS=ON -DCMAKE_CXX_FLAGS=-Wno-error >/dev/null
fi
cmake --build _build -j16 2>&1 | tail -2
ctest --test-dir _build -j8 --timeout 900 --output-junit /tmp/yomm2-baseline.junit.xml | tail -5
