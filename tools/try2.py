import sys, random, time
sys.path.insert(0,'/verif/tools')
import verif, gen
seed=int(sys.argv[1]); N=int(sys.argv[2])
rng=random.Random(seed)
exe,err=verif.build_hdyn()
scripts=[]
for i in range(N):
    pol=rng.choice(gen.POLICIES)
    reg=gen.gen_registry(rng)
    style=rng.choice(gen.STYLES)
    lines,meta=gen.emit_script(rng,reg,pol,style=style,dump=False)
    scripts.append(("s%d-%s-%s-%s"%(i,pol,style,reg.family),lines))
t=time.time()
bad=verif.oracle_check(exe,scripts)
print("time",time.time()-t,"bad",len(bad))
for b in bad[:5]: print(b)
