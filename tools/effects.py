#!/usr/bin/env python3
"""X-effects: write-effect summary of the instantiated call path, from clang's AST (DESIGN.md 3.3, 5.16).

For every function of the call path (dispatch, v-table pointer lookup, hash, virtual_ptr construction and
use, RTTI accessors) instantiated by harness/tsan/tsan.cpp, lists the side effects found in its body:
  * local    assignment / increment whose target is a local variable or parameter
  * this     ... whose target is a member of the object the function runs on (thread-owned object)
  * shared   ... whose target is anything else (static data member, global): a write to shared state
  * static   a function-local static variable (lazy initialisation = shared write)
  * insert   a call to a container member that may insert (operator[] on a map)
Output: lean/Yomm2/Generated/CallPath.lean, cached by the hash of the inputs."""
import hashlib
import json
import os
import subprocess
import sys

HERE = os.path.dirname(os.path.abspath(__file__))
VERIF = os.path.dirname(HERE)
REPO = os.environ.get("VERIF_REPO", "/repo")
SRC = os.path.join(VERIF, "harness", "tsan", "tsan.cpp")
OUT = os.path.join(VERIF, "lean", "Yomm2", "Generated", "CallPath.lean")
CACHE = os.path.join(VERIF, ".cache")

FILTERS = ["yorel::yomm2::method", "yorel::yomm2::virtual_ptr", "vptr_vector", "vptr_map", "perfect_hash", "std_rtti", "virtual_traits"]
CALLPATH = {"resolve", "resolve_uni", "resolve_multi_first", "resolve_multi_next", "operator()", "vptr", "check_static_offset",
            "dynamic_vptr", "hash_type_id", "dynamic_type", "_vptr", "final", "box", "unbox", "get", "operator->", "operator*",
            "cast", "rarg", "virtual_ptr", "static_type", "type_index"}
ASSIGN_OPS = {"=", "+=", "-=", "*=", "/=", "%=", "<<=", ">>=", "&=", "|=", "^="}


def include_hash():
    h = hashlib.sha256()
    inc = os.path.join(REPO, "include")
    for d, _, fs in sorted(os.walk(inc)):
        for f in sorted(fs):
            p = os.path.join(d, f)
            h.update(p.encode())
            h.update(open(p, "rb").read())
    h.update(open(SRC, "rb").read())
    h.update(open(__file__, "rb").read())
    return h.hexdigest()[:16]


def stream(text):
    dec = json.JSONDecoder()
    i, n = 0, len(text)
    while i < n:
        while i < n and text[i].isspace():
            i += 1
        if i >= n:
            break
        try:
            obj, j = dec.raw_decode(text, i)
        except json.JSONDecodeError:
            nl = text.find("\n{", i + 1)
            if nl < 0:
                break
            i = nl + 1
            continue
        yield obj
        i = j


def walk(node, fn):
    fn(node)
    for c in node.get("inner", []) or []:
        if isinstance(c, dict):
            walk(c, fn)


def target_of(expr, locals_):
    """classify the written expression"""
    k = expr.get("kind")
    if k in ("ParenExpr", "ImplicitCastExpr", "CStyleCastExpr", "CXXStaticCastExpr"):
        inner = [c for c in expr.get("inner", []) if isinstance(c, dict)]
        return target_of(inner[0], locals_) if inner else ("shared", "?")
    if k == "DeclRefExpr":
        d = expr.get("referencedDecl", {})
        if d.get("id") in locals_:
            return ("local", d.get("name", "?"))
        if d.get("kind") in ("ParmVarDecl",):
            return ("local", d.get("name", "?"))
        return ("shared", d.get("name", "?"))
    if k == "MemberExpr":
        inner = [c for c in expr.get("inner", []) if isinstance(c, dict)]
        base = inner[0] if inner else {}
        name = expr.get("name", "?")
        # a member of *this, or of a local object
        b = base
        while b.get("kind") in ("ImplicitCastExpr", "ParenExpr") and b.get("inner"):
            b = b["inner"][0]
        if b.get("kind") == "CXXThisExpr":
            return ("this", name)
        t = target_of(b, locals_)
        return (t[0], t[1] + "." + name)
    if k in ("ArraySubscriptExpr", "UnaryOperator", "CXXOperatorCallExpr"):
        inner = [c for c in expr.get("inner", []) if isinstance(c, dict)]
        # *p / p[i] / v[i]: what p refers to
        for c in inner:
            t = target_of(c, locals_)
            if t[0] != "local" or c.get("kind") in ("DeclRefExpr", "MemberExpr"):
                return (t[0] if t[0] != "local" else "local-deref", t[1])
        return ("local", "?")
    if k == "CXXDependentScopeMemberExpr" or k == "DependentScopeDeclRefExpr":
        return ("dependent", expr.get("member", "?"))
    return ("shared", k or "?")


def analyse(fn):
    effects = []
    locals_ = set()

    def collect(n):
        if n.get("kind") in ("VarDecl", "ParmVarDecl") and "id" in n:
            if n.get("kind") == "VarDecl" and n.get("storageClass") == "static":
                effects.append(("static", n.get("name", "?")))
            else:
                locals_.add(n["id"])
    walk(fn, collect)

    def visit(n):
        k = n.get("kind")
        inner = [c for c in n.get("inner", []) if isinstance(c, dict)]
        if k in ("BinaryOperator", "CompoundAssignOperator") and n.get("opcode") in ASSIGN_OPS and inner:
            effects.append(target_of(inner[0], locals_))
        elif k == "UnaryOperator" and n.get("opcode") in ("++", "--") and inner:
            effects.append(target_of(inner[0], locals_))
        elif k == "CXXOperatorCallExpr" and inner:
            callee = inner[0]
            while callee.get("kind") == "ImplicitCastExpr" and callee.get("inner"):
                callee = callee["inner"][0]
            name = callee.get("referencedDecl", {}).get("name", "")
            if name == "operator[]" and len(inner) > 1:
                obj = inner[1]
                t = obj.get("type", {}).get("qualType", "")
                if "map" in t:
                    effects.append(("insert", target_of(obj, locals_)[1]))
            elif name in ("operator=", "operator+=", "operator++", "operator--") and len(inner) > 1:
                effects.append(target_of(inner[1], locals_))
    walk(fn, visit)
    return effects


def extract():
    inc = os.path.join(REPO, "include")
    result = {}
    for flt in FILTERS:
        p = subprocess.run(["clang++-14", "-std=c++17", "-fsyntax-only", "-I" + inc, "-Xclang", "-ast-dump=json",
                            "-Xclang", "-ast-dump-filter=" + flt, SRC], stdout=subprocess.PIPE, stderr=subprocess.PIPE, text=True)
        if not p.stdout:
            raise SystemExit("effects: clang produced no AST for filter %s: %s" % (flt, p.stderr[-500:]))
        for top in stream(p.stdout):
            def fnvisit(n):
                if n.get("kind") in ("CXXMethodDecl", "FunctionDecl", "CXXConstructorDecl") and n.get("name") in CALLPATH:
                    body = [c for c in n.get("inner", []) if isinstance(c, dict) and c.get("kind") == "CompoundStmt"]
                    if not body:
                        return
                    loc = n.get("loc", {})
                    f = loc.get("file") or loc.get("spellingLoc", {}).get("file") or ""
                    key = n.get("name")
                    for e in analyse(n):
                        if e[0] in ("dependent",):
                            continue
                        result.setdefault(key, set()).add(e)
                    result.setdefault(key, set())
            walk(top, fnvisit)
    return {k: sorted(v) for k, v in result.items()}


def main():
    os.makedirs(CACHE, exist_ok=True)
    os.makedirs(os.path.dirname(OUT), exist_ok=True)
    key = include_hash()
    cpath = os.path.join(CACHE, "effects-%s.json" % key)
    if os.path.exists(cpath):
        eff = json.load(open(cpath))
    else:
        eff = extract()
        json.dump(eff, open(cpath, "w"))
        for f in os.listdir(CACHE):
            if f.startswith("effects-") and f != os.path.basename(cpath):
                os.remove(os.path.join(CACHE, f))
    lines = ["/-! Generated by tools/effects.py from clang's AST of harness/tsan/tsan.cpp compiled against /repo. Do not edit. -/",
             "namespace Yomm2.Generated", "",
             "/-- (function of the call path, kind of side effect, target) -/",
             "def callPathEffects : List (String × String × String) := ["]
    rows = []
    for fn in sorted(eff):
        for kind, tgt in eff[fn]:
            rows.append('  ("%s", "%s", "%s")' % (fn, kind, str(tgt).replace('"', "'")))
    lines.append(",\n".join(rows))
    lines.append("]")
    lines.append("")
    lines.append("def callPathFunctions : List String := [" + ", ".join('"%s"' % f for f in sorted(eff)) + "]")
    lines += ["", "end Yomm2.Generated", ""]
    new = "\n".join(lines)
    if not os.path.exists(OUT) or open(OUT).read() != new:
        open(OUT, "w").write(new)
    return 0


if __name__ == "__main__":
    sys.exit(main())
