#!/usr/bin/env python3
"""addseed.py <seed-id> <property> <src dir> <needs_to_manifest...>: file a confirmed seeded change under seeded/<seed-id>/"""
import sys, os, shutil, json
sid, prop, src = sys.argv[1:4]
needs = ' '.join(sys.argv[4:])
tag = os.path.basename(src.rstrip('/'))
if tag.endswith('-out'):
    tag = tag[:-4]
dst = os.path.join(os.path.dirname(os.path.dirname(os.path.abspath(__file__))), 'seeded', sid)
os.makedirs(dst, exist_ok=True)
for f in ('patch.diff', 'demo.cpp', 'notes.md'):
    shutil.copy(os.path.join(src, f), dst)
conf = open(f'/tmp/seedcheck-{tag}.result').read()
open(os.path.join(dst, 'confirmation.txt'), 'w').write(conf)
json.dump({"property": prop,
  "breaks": "see notes.md (written by the independent sub-agent that produced the change)",
  "needs_to_manifest": needs,
  "origin": "fresh sub-agent given only the property text and its own scratch worktree of /repo",
  "confirmed_by": "tools/seedcheck.sh in a scratch worktree: demo passes on the clean tree (rc 0) and fails with the change; full test-suite (50 ctest entries) passes with the change",
  "confirmation": conf.splitlines()}, open(os.path.join(dst, 'meta.json'), 'w'), indent=1)
print(dst, os.listdir(dst))
